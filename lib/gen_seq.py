"""Random / scripted driver generation for the sequential engine (beyond the TLC-generated drivers).

A driver is {"id", "cfg": {...}, "ops": [...]}; see harness/src/seq.rs for the op vocabulary.
All randomness comes from the seed handed in (VERIF_SEED).
"""
import random

TYPES = [(0, 1), (0, 2), (0, 8), (0, 16), (1, 1), (2, 1), (3, 1), (5, 1), (9, 1), (17, 1), (64, 1), (2, 2), (6, 2), (4, 4), (12, 4),
         (8, 8), (16, 8), (24, 8), (40, 8), (16, 16), (32, 16), (64, 16), (64, 64)]
SAT = 1 << 30


def sat(v):
    return max(-SAT, min(SAT, v))


def base_cfg(rng, arenas, cap=None, kind=None, unify=None, reserved=None, minseg=None, maxalign=None):
    cfg = {
        "arenas": arenas,
        "cap": cap if cap is not None else rng.choice([64, 96, 128, 200, 256, 512, 1024]),
        "reserved": reserved if reserved is not None else rng.choice([0, 0, 0, 1, 5, 8, 13]),
        "kind": kind if kind is not None else rng.choice(["opt", "pes", "none", "opt", "pes"]),
        "minseg": minseg if minseg is not None else rng.choice([1, 8, 8, 16, 20, 24, 40]),
        "unify": unify if unify is not None else rng.choice([False, True]),
        "maxalign": maxalign if maxalign is not None else rng.choice([8, 8, 16, 64]),
        "magic": rng.choice([0, 7]),
    }
    return cfg


def rand_size(rng, cap):
    r = rng.random()
    if r < 0.08:
        return 0
    if r < 0.55:
        return rng.choice([1, 3, 5, 7, 8, 9, 12, 15, 16, 17, 20, 24, 31, 32, 33, 40])
    if r < 0.9:
        return rng.randint(1, max(1, cap // 3))
    return rng.randint(cap // 2, cap + 8)


def rand_alloc(rng, cap, owned_p=0.2):
    r = rng.random()
    o = rng.random() < owned_p
    if r < 0.5:
        return {"k": "ab", "n": rand_size(rng, cap), "o": o}
    s, a = rng.choice(TYPES)
    if r < 0.75:
        return {"k": "at", "s": s, "a": a, "o": o}
    return {"k": "aa", "s": s, "a": a, "n": rand_size(rng, cap // 2), "o": o}


def random_driver(rng, did, arenas, length=60, **kw):
    """A free mix of allocation / release / accounting ops. Rewind, clear and truncate are only used in the
    dedicated generators because they invalidate handles by contract."""
    cfg = base_cfg(rng, arenas, **kw)
    cap = cfg["cap"]
    ops = []
    nlive = 0  # estimate only; handles are referenced relatively ("hr") and resolved by the harness
    for _ in range(length):
        r = rng.random()
        if r < 0.5 or nlive == 0:
            ops.append(rand_alloc(rng, cap))
            nlive += 1
        elif r < 0.8:
            nlive -= 1
            ops.append({"k": rng.choice(["drop", "drop", "drop", "dealloc", "leak"]), "hr": rng.randint(0, 63)})
        elif r < 0.86:
            ops.append({"k": "detach", "hr": rng.randint(0, 63)})
        elif r < 0.9:
            ops.append({"k": "discard"})
        elif r < 0.95:
            ops.append({"k": "setmin", "v": rng.choice([1, 8, 16, 20, 24, 40, 64])})
        else:
            ops.append({"k": "incdisc", "v": rng.choice([0, 1, 7, 100])})
    return {"id": did, "cfg": cfg, "ops": ops}


def fix_ids(driver):
    """Handle ids are assigned by the harness on *successful* allocations only; random drivers guess.
    Nothing to fix: unknown ids are logged as `skip` by the harness."""
    return driver


def churn_driver(rng, did, arenas, rounds=12, **kw):
    """Fill the arena, free a random subset, allocate again (drives the slow path hard)."""
    cfg = base_cfg(rng, arenas, **kw)
    cap = cfg["cap"]
    ops = []
    nlive = 0
    for _ in range(rounds):
        # fill
        for _ in range(rng.randint(2, 8)):
            ops.append(rand_alloc(rng, cap // 2, owned_p=0.1))
            nlive += 1
        k = rng.randint(1, max(1, nlive - 1))
        for _ in range(k):
            ops.append({"k": rng.choice(["drop", "drop", "dealloc"]), "hr": rng.randint(0, 63)})
        nlive = max(0, nlive - k)
        if rng.random() < 0.15:
            ops.append({"k": "setmin", "v": rng.choice([1, 8, 16, 24])})
        if rng.random() < 0.1:
            ops.append({"k": "discard"})
    return {"id": did, "cfg": cfg, "ops": ops}


def positions(cap, doff_guess, cur_guess):
    """Boundary-dense ArenaPosition values: (p, exact value)."""
    out = []
    u32 = (1 << 32) - 1
    i64max = (1 << 63) - 1
    i64min = -(1 << 63)
    for v in [0, 1, doff_guess - 1, doff_guess, doff_guess + 1, cur_guess - 1, cur_guess, cur_guess + 1,
              cap - 1, cap, cap + 1, 2 * cap, (1 << 31) - 1, 1 << 31, u32 - 1, u32]:
        if 0 <= v <= u32:
            out.append(("start", v))
            out.append(("end", v))
    for d in [0, 1, -1, -cur_guess, -cur_guess - 1, -cur_guess + 1, doff_guess - cur_guess, doff_guess - cur_guess - 1,
              cap - cur_guess, cap - cur_guess + 1, cap - cur_guess - 1, -cap, cap, -(1 << 31), 1 << 31, -(1 << 32),
              1 << 32, i64max, i64max - cur_guess, i64max - cur_guess + 1, i64min, i64min + 1]:
        out.append(("cur", d))
    return out


def rewind_op(p, v):
    return {"k": "rewind", "p": p, "v": sat(v), "vx": str(v)}
