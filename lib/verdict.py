"""Verdict policy shared by all engines: signatures, known findings, evidence, exit status.

 exit 0  property held on everything explored (KNOWN-FINDING lines for listed findings)
 exit 1  a violation on the REAL code that known_findings.json does not list: "VIOLATION property=<id> replay=<path>"
 exit 2  tool error / model counterexample that does not reproduce on the code (machinery defect, never a verdict)
"""
import json
import os
import sys
import time

import rv

SAT = 1 << 30


def size_class(n):
    if n is None:
        return "-"
    if n >= SAT:
        return "huge"
    if n == 0:
        return "zero"
    return "n"


def signature(v):
    """Identify the failing input / site. v = violation record (prop, pred, op, res, pre_alloc, profile...)."""
    op = v.get("op") or {}
    k = op.get("k", "?")
    cls = ""
    if k in ("ab", "aa", "at"):
        cls = size_class(op.get("n", 0) if k != "at" else 0)
        if k != "ab":
            cls += ":T%d/%d" % (op.get("s", 0), op.get("a", 1)) if v.get("sig_types") else ""
    elif k == "rewind":
        p = op.get("p")
        val = op.get("v", 0)
        if abs(val) >= SAT:
            cls = p + ":huge"
        elif p == "cur" and v.get("pre_alloc") is not None and v["pre_alloc"] + val == 0:
            cls = "cur:sum-zero"
        else:
            cls = p
    rk = (v.get("res") or {}).get("k")
    out = "%s:%s@%s" % (v["prop"], v["pred"], k + ("-via-clone" if op.get("via") == "clone" else ""))
    if cls:
        out += ":" + cls
    if rk in ("panic", "signal"):
        out += ":" + rk
    return out


def finish(prop, tier, seed, t0, coverage, violations, drifts, level="model_checking", assumptions=None,
           replay_payload=None, notes=None, extra=None):
    """violations: list of records with 'prop' == prop (already filtered), each with 'sig' and optional 'driver_obj'."""
    findings = [e for e in rv.load_findings() if e.get("property") == prop and e.get("kind") == "finding"]
    listed = {e["signature"]: e for e in findings}
    by_sig = {}
    for v in violations:
        by_sig.setdefault(v["sig"], []).append(v)
    new = {s: vs for s, vs in by_sig.items() if s not in listed}
    known = {s: vs for s, vs in by_sig.items() if s in listed}
    for s, vs in sorted(known.items()):
        print("KNOWN-FINDING: property=%s %s [%s] (%d occurrence(s) this run)" % (prop, listed[s].get("what", ""), s, len(vs)))
    for s in sorted(set(listed) - set(known)):
        rv.log("listed finding not observed in this run: %s" % s)
    drift_n = len(drifts or [])
    if drift_n:
        d0 = drifts[0]
        print("DRIFT property=%s implementation-level model no longer matches the code in %d event(s); first: %s" % (
            prop, drift_n, json.dumps({k: d0.get(k) for k in ("what", "driver", "i", "op")})))
    cov = dict(coverage)
    cov["known_findings_seen"] = sorted(known)
    cov["impl_conformant"] = drift_n == 0
    cov["drift_events"] = drift_n
    ev_extra = dict(extra or {})
    if notes:
        ev_extra["notes"] = notes
    rc = 0
    if new:
        rc = 1
        for s, vs in sorted(new.items()):
            v = vs[0]
            payload = dict(replay_payload or {})
            payload.update({"property": prop, "signature": s, "violation": {k: v.get(k) for k in ("prop", "pred", "driver", "i", "arena", "op", "res", "profile")},
                            "driver": v.get("driver_obj"), "occurrences": len(vs)})
            path = rv.save_replay(prop, payload)
            print("VIOLATION property=%s replay=%s" % (prop, path))
            print("  %s (x%d) e.g. driver %s op #%s %s -> %s" % (s, len(vs), v.get("driver"), v.get("i"), json.dumps(v.get("op")), json.dumps(v.get("res"))))
    rv.write_evidence(prop, tier, seed, level, cov, time.time() - t0, len(violations), assumptions=assumptions, extra=ev_extra)
    print("%s %s tier=%s seed=%s: %s (%d violation event(s), %d new signature(s), %d known) in %.1fs" % (
        "PASS" if rc == 0 else "FAIL", prop, tier, seed, "held on everything explored" if rc == 0 else "VIOLATED",
        len(violations), len(new), len(known), time.time() - t0))
    return rc
