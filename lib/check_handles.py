"""C13: handles give their memory back exactly once and the arena outlives them.
 - lifetimes: Handles.tla model-checked (MCHandles), its state graph replayed on real sync/unsync arenas over Vec /
   anonymous map / file (harness `handles`), judged by TraceHandles;
 - extents: every drop / detach / dealloc event of the sequential core suite is judged by the C13 predicates of ArenaProps
   (ReleasesOwnExtentOnce, DetachedReleasesNothing, ...);
 - multi-threaded clone/drop: the teardown scenarios of the concurrent engine (FreedOnce, NoAccessAfterFree)."""
import json
import os
import random
import shutil
import time

import rv
import verdict
from rv import ToolError, log


def mc(backend, maxlen, emit):
    key = rv.spec_hash("handles|%s|%d|%s" % (backend, maxlen, emit))[:16]
    cf = os.path.join(rv.ensure_dir(rv.MC_CACHE), "handles-%s.json" % key)
    if os.path.exists(cf):
        return json.load(open(cf))
    wd = os.path.join(rv.WORK, "mc", "handles-%s-%d-%s" % (backend, maxlen, emit))
    shutil.rmtree(wd, ignore_errors=True)
    rv.ensure_dir(wd)
    with open(os.path.join(wd, "MCHandles.cfg"), "w") as f:
        f.write('SPECIFICATION Spec\nVIEW View\nCONSTANTS\n  Backend = "%s"\n  MaxLen = %d\n  MaxHandles = 3\n  MaxVals = 3\n  Emit = %s\n'
                'INVARIANT Inv\nCHECK_DEADLOCK FALSE\n' % (backend, maxlen, "TRUE" if emit else "FALSE"))
    rc, out = rv.run_tlc(wd, "MCHandles.tla", "MCHandles.cfg", workers=1 if emit else 6, deque=False, timeout=1500, heap="6g")
    st = rv.tlc_stats(out)
    if st is None:
        raise ToolError("MCHandles failed: %s" % out[-1500:])
    res = {"rc": rc, "generated": st[0], "distinct": st[1], "depth": st[2], "backend": backend}
    if emit:
        res["drivers"] = rv.prefix_maximal(rv.parse_drv(out))
    if rc != 0:
        res["error"] = out[-2500:]
    shutil.rmtree(wd, ignore_errors=True)
    rv.dump_json_atomic(cf, res)
    return res


def with_teardown(ops):
    """The TLC history followed by the release of everything that is still alive (handles first: a borrowed handle pins the
    arena value it borrows from), so that every history ends with the memory released -- and a history that leads back to an
    already explored state (remove_on_drop set and reset, say) still gets its ending checked on the real code."""
    hs, vals, nh, nv = [], [0], 1, 1
    for o in ops:
        k = o["k"]
        if k in ("ab", "at", "adc"):
            if vals:
                hs.append(nh)
                nh += 1
        elif k == "drop":
            if o["h"] in hs:
                hs.remove(o["h"])
        elif k == "clone":
            if vals:
                vals.append(nv)
                nv += 1
        elif k == "dropval":
            if o["v"] in vals:
                vals.remove(o["v"])
    return list(ops) + [{"k": "drop", "h": h} for h in hs] + [{"k": "dropval", "v": v} for v in vals]


def run_lifetimes(tier, seed):
    rng = random.Random(seed + 77)
    deep = tier == "thorough"
    results = [mc("vec", 8 if deep else 7, False), mc("file", 8 if deep else 7, False)]
    # every history of <= 4 calls is replayed (all of them: rare orders such as "the owned handle outlives every arena
    # value" are a handful among tens of thousands); thorough adds a sample of the histories of 5 calls
    emit = [mc("vec", 4, True), mc("file", 4, True), mc("file_ro", 5, True), mc("file_cro", 5, True)]
    emit5 = [mc("vec", 5, True), mc("file", 5, True)] if deep else []
    for r in results + emit + emit5:
        if r["rc"] != 0:
            raise ToolError("Handles model violates its own invariants: %s" % r.get("error", "")[-800:])
    drivers = []
    for r in emit + emit5:
        ds = r["drivers"]
        if r in emit5 and len(ds) > 20000:
            rng.shuffle(ds)
            ds = ds[:20000]
        backends = [r["backend"]] if r["backend"].startswith("file") else ["vec", "anon"]
        for i, ops in enumerate(ds):
            drivers.append({"id": "h%d:%s:%d" % (5 if r in emit5 else 4, r["backend"], i),
                            "cfg": {"flavor": ["sync", "unsync"][i % 2], "backend": backends[(i // 2) % len(backends)], "cap": 256,
                                    "reserved": 0, "kind": "opt", "minseg": 8, "unify": False},
                            "ops": with_teardown(ops)})
    binary = rv.build_harness("dev")
    wd = rv.ensure_dir(os.path.join(rv.WORK, "handles"))
    dfile, tfile = os.path.join(wd, "drivers.ndjson"), os.path.join(wd, "trace.ndjson")
    # run; a process death (abort / signal inside the arena) is recorded and the remaining drivers continue
    pending, out_lines, died = list(drivers), [], []
    while pending:
        rv.write_ndjson(dfile, pending)
        rc, out, _ = rv.run_harness(binary, "handles", [dfile, tfile, os.path.join(wd, "files")], timeout=3600, allow_fail=True, cpu_limit=int(os.environ.get("RV_CPU_LIMIT", "300")))
        with open(tfile) as f:
            got = [l for l in f.readlines() if l.endswith("\n")]
        out_lines += got
        if rc == 0:
            break
        n_reset = sum(1 for l in got if '"ev":"reset"' in l)
        if n_reset == 0:
            raise ToolError("handles harness died before the first driver: %s" % out[-500:])
        last_begin = [json.loads(l) for l in got if '"ev":"begin"' in l][-1]
        died.append((pending[n_reset - 1], last_begin, rc))
        pending = pending[n_reset:]
    with open(tfile, "w") as f:
        f.writelines(out_lines)
    shutil.rmtree(os.path.join(wd, "files"), ignore_errors=True)
    r = rv.validate_trace(tfile, "TraceHandles.tla", "TraceHandles.cfg", "handles")
    lines = r["lines"]
    by_id = {d["id"]: d for d in drivers}
    viol, drift = [], []
    for (d, b, rc) in died:
        viol.append({"prop": "C13", "pred": "ProcessDied", "driver": d["id"], "i": b["i"], "arena": 0, "op": b["op"], "res": {"k": "signal", "sig": -rc},
                     "sig": "C13:ProcessDied@%s:rod=%s" % (b["op"]["k"], any(o.get("k") == "rod" and o.get("b") for o in d["ops"][:b["i"]])),
                     "driver_obj": dict(d, engine="handles")})
    for (p, pred, gl, _) in r["viol"]:
        reset, ev = rv.locate(lines, gl)
        viol.append({"prop": p, "pred": pred, "driver": reset["id"], "i": ev.get("i"), "arena": 0, "op": ev.get("op"), "res": {"k": ev.get("res"), "refs": ev.get("refs")},
                     "sig": "C13:%s@%s" % (pred, (ev.get("op") or {}).get("k")), "driver_obj": dict(by_id[reset["id"]], engine="handles")})
    for (gl, _, w) in r["drift"]:
        reset, ev = rv.locate(lines, gl)
        drift.append({"what": w, "driver": reset["id"], "i": ev.get("i"), "op": ev.get("op")})
    released = sum(1 for l in lines if '"unmounts":1' in l)
    cov = {"states": sum(x["distinct"] for x in results + emit + emit5), "transitions": sum(x["generated"] for x in results + emit + emit5),
           "drivers": len(drivers), "events": len(lines), "released_events": released, "sample": drivers[len(drivers) // 2]}
    return cov, viol, drift


def run(prop, tier, seed):
    import check_seq
    import eng_seq
    t0 = time.time()
    cov, viol, drift = run_lifetimes(tier, seed)
    # extents: the core suite of the sequential engine, C13 predicates
    mcs = eng_seq.run_mc(tier)
    core = eng_seq.run_suite("core", tier, seed, mcs)
    for v in core["viol"]:
        if v["prop"] == "C13":
            v = dict(v)
            v["sig"] = verdict.signature(v)
            v["driver_obj"] = (core.get("viol_drivers") or {}).get(v["driver"])
            viol.append(v)
    drift += core["drift"]
    # arena values made and dropped between other calls (clear, truncate, allocations through either value)
    clone = eng_seq.run_suite("clone", tier, seed, mcs)
    for v in clone["viol"]:
        if v["prop"] == "C13":
            v = dict(v)
            v["sig"] = verdict.signature(v)
            v["driver_obj"] = (clone.get("viol_drivers") or {}).get(v["driver"])
            viol.append(v)
    drift += clone["drift"]
    # multi-threaded clone / drop: teardown scenarios of the concurrent engine
    import check_sync
    tcov, tviol, tdrift = check_sync.run_teardown(tier, seed)
    viol += tviol
    drift += tdrift
    st = core["stats"]
    coverage = {
        "states": cov["states"] + sum(r.get("distinct", 0) for r in mcs) + tcov["states"],
        "transitions": cov["transitions"] + sum(r.get("generated", 0) for r in mcs) + tcov["transitions"],
        "traces_validated_against_impl": cov["drivers"] + core["drivers"] + clone["drivers"] + tcov["drivers"],
        "samples": [{"lifetimes": cov["sample"]}, {"core": core["samples"][0]}],
        "evaluations": cov["events"] + core["events"] + tcov["events"],
        "distinct_nontrivial": cov["released_events"] + st["became_segment"] + st["too_small"] + st["top_release"] + st["owned"],
        "rule": "MCHandles: every history of <= 7 lifetime calls (3 handles, 3 arena values, Vec and file backends) with the C13 invariants; its state graph "
                "replayed on real arenas; plus every release event of the sequential core suite and the concurrent teardown scenarios; non-trivial = "
                "events at which the backing memory was released + release events that changed the arena + owned handles",
        "exhaustive": False,
        "lifetime_drivers": cov["drivers"], "core_drivers": core["drivers"], "clone_drivers": clone["drivers"], "teardown_drivers": tcov["drivers"],
    }
    assumptions = ["the release of the backing memory is observed at the entry of Memory::unmount (hook); for the Vec backend the buffer is freed with the Memory box right after",
                   "a borrowed handle pins the arena value it borrows (Rust's borrow rules): the model never drops a pinned value"]
    return verdict.finish(prop, tier, seed, t0, coverage, viol, drift, assumptions=assumptions,
                          replay_payload={"engine": "handles", "tier": tier, "seed": seed})


def replay(payload):
    d = payload["driver"]
    binary = rv.build_harness("dev")
    wd = rv.ensure_dir(os.path.join(rv.WORK, "handles"))
    dfile, tfile = os.path.join(wd, "r.ndjson"), os.path.join(wd, "rt.ndjson")
    if d.get("engine") != "handles":
        import check_seq
        return check_seq.replay(payload)
    rv.write_ndjson(dfile, [d])
    rv.run_harness(binary, "handles", [dfile, tfile, os.path.join(wd, "files")])
    r = rv.validate_trace(tfile, "TraceHandles.tla", "TraceHandles.cfg", "handles-replay", parts=1)
    for v in r["viol"]:
        print("VIOL %s %s line %d" % v[:3])
    print("replay: %d violation event(s) reproduced" % len(r["viol"]))
    return 1 if r["viol"] else 0
