"""C02 / C07: decided by the ArenaSync model (TLC: invariants + liveness) bound to the real sync::Arena by the
controlled scheduler (spec->code: TLC schedules and counterexamples replayed; code->spec: every recorded access
validated by TraceSyncImpl, every call/return by TraceSyncProp)."""
import hashlib
import json
import os
import random
import shutil
import time
from concurrent.futures import ThreadPoolExecutor

import eng_sync as es
import rv
import verdict
from rv import ToolError, log

AB = lambda n: {"k": "ab", "n": n}
AT = lambda s, a: {"k": "at", "s": s, "a": a}
AA = lambda s, a, n: {"k": "aa", "s": s, "a": a, "n": n}
FILL = lambda h: {"k": "fill", "h": h}
VER = lambda h: {"k": "verify", "h": h}
DROP = lambda h: {"k": "drop", "h": h}
T0, T1, T2, T3 = 51, 101, 151, 201  # first handle id of thread 0..3

SETUP_ONESEG = [AB(64), FILL(1), AB(72), FILL(2), AB(63), FILL(3), DROP(1)]            # list: [seg 49@8], arena full
SETUP_TWOSEG = [AB(40), FILL(1), AB(24), FILL(2), AB(56), FILL(3), AB(16), FILL(4), AB(63), FILL(5),
                DROP(1), DROP(3)]                                                       # two segments, arena full
SETUP_FRESH = [AB(16), FILL(1)]                                                         # plenty of fresh space


def scenarios(tier):
    """(name, cfg, setup, programs, flags). Programs reference setup handles by id and own handles by T<t>+k."""
    sc = []
    kinds = ["opt", "pes"]
    for kind in kinds:
        c = es.conc_cfg(cap=200, kind=kind, minseg=8, retries=2)
        # pop vs insert on a one-segment list (both C07 findings live here)
        sc.append(("pop_vs_insert_" + kind, c, SETUP_ONESEG,
                   [[AB(16), FILL(T0), VER(T0)], [DROP(2)]], {"pb": True, "live": True}))
        # two poppers + verification of recycled contents
        sc.append(("two_poppers_" + kind, c, SETUP_TWOSEG,
                   [[AB(8), FILL(T0), VER(T0), DROP(T0)], [AB(8), FILL(T1), VER(T1)]], {"pb": True, "live": True}))
        # inserts only: no node is ever removed, so no removed node can be met -> liveness must hold
        sc.append(("inserts_only_" + kind, c, SETUP_TWOSEG,
                   [[DROP(2)], [DROP(4)]], {"live": True, "expect_live": True}))
        # typed / aligned allocations from the list while another thread inserts
        sc.append(("typed_vs_insert_" + kind, c, SETUP_ONESEG,
                   [[AT(8, 8), FILL(T0), VER(T0)], [DROP(2), AA(4, 4, 3), FILL(T1)]], {"live": False}))
        # a value that looks like a node written over a recycled typed allocation while a traverser is in flight
        sc.append(("node_like_value_" + kind, c, SETUP_ONESEG,
                   [[AT(8, 8), {"k": "write", "h": T0, "at": 0, "vw": [-3, -1]}, VER(T0)], [DROP(2)]], {"live": False}))
        # memory written by one thread, released, and handed to the other (the happens-before chain of C12)
        sc.append(("recycle_across_" + kind, c, SETUP_ONESEG,
                   [[AB(24), FILL(T0), DROP(T0)], [AB(16), FILL(T1), VER(T1)]], {"live": False}))
        # discard_freelist against an allocation from the list
        sc.append(("discard_vs_pop_" + kind, c, SETUP_TWOSEG,
                   [[{"k": "discard"}], [AB(8), FILL(T1), VER(T1)]], {"live": True}))
        # the same races with sizes that are not multiples of 8 (padding in front of nodes and typed values)
        sc.append(("pop_vs_insert_odd_" + kind, c, [AB(61), FILL(1), AB(77), FILL(2), AB(61), FILL(3), DROP(1)],
                   [[AB(13), FILL(T0), VER(T0), AT(4, 4), FILL(T0 + 1)], [DROP(2), AA(8, 8, 3), FILL(T1)]], {"live": True}))
        # two threads take two NEIGHBOURING segments of a three-segment list at the same time (each one's predecessor /
        # successor is changed by the other while it is between its reads and its CASes)
        sc.append(("neighbours_" + kind, c, [AB(24), FILL(1), AB(8), FILL(2), AB(40), FILL(3), AB(8), FILL(4), AB(56), FILL(5), AB(8), FILL(6),
                                             AB(55), FILL(7), DROP(1), DROP(3), DROP(5)],
                   [[AB(20), FILL(T0), VER(T0), DROP(T0)], [AB(30), FILL(T1), VER(T1)]], {"pb": True, "live": True}))
        # the head is popped, split and released again by one thread while the other sits between its read of the head word
        # and its mark CAS: the same node is the head again, with another size (an ABA on the sentinel word)
        sc.append(("aba_head_" + kind, c, [AB(120), FILL(1), AB(79), FILL(2), DROP(1)],
                   [[AB(60), FILL(T0), DROP(T0), AB(30), FILL(T0 + 1), VER(T0 + 1)], [AB(90), FILL(T1), VER(T1)]], {"pb": True, "live": True}))
        # a retry budget of 0 / 1: a request nothing can serve must still return (the holder keeps its allocations for ever)
        for rt in (0, 1):
            c0 = es.conc_cfg(cap=200, kind=kind, minseg=8, retries=rt)
            sc.append(("retries%d_%s" % (rt, kind), c0, SETUP_ONESEG,
                       [[AB(60), AB(16), FILL(T0), VER(T0)], [AB(8), FILL(T1)]], {"live": True}))
        # discard_freelist against a release that becomes the new head between the discarder's mark and its unlink
        sc.append(("discard_vs_insert_" + kind, c, SETUP_TWOSEG,
                   [[{"k": "discard"}], [DROP(2), AB(8), FILL(T1), VER(T1)]], {"pb": True, "live": True}))
        # a segment written and released by one thread is the SECOND fit of the other thread's request (the search walks
        # over a node before it takes one: the hand-over must be ordered through the skipped node's word as well)
        sc.append(("recycle_second_" + kind, c, SETUP_TWOSEG,
                   [[AB(40), FILL(T0), DROP(T0)], [AB(40), FILL(T1), VER(T1)]], {"live": False}))
        # ... and the same hand-over for a block that came from FRESH space: its first 8 bytes were the owner's own bytes
        # before they became the node word (a block taken from the list keeps the node header out of the user's range)
        sc.append(("fresh_recycle_second_" + kind, c, [AB(24), FILL(1), AB(127), FILL(2), DROP(1)],
                   [[AB(40), FILL(T0), AB(8), FILL(T0 + 1), DROP(T0)], [AB(24), FILL(T1), VER(T1)]], {"live": False}))
        # the remainder rule reads the minimum segment size while another thread changes it (and the discarded counter)
        sc.append(("minseg_race_" + kind, c, SETUP_ONESEG,
                   [[{"k": "setmin", "v": 40}, {"k": "incdisc", "v": 3}, DROP(2)], [AB(16), FILL(T1), VER(T1), DROP(T1)]], {"live": True}))
    # two mappings of one file (as two processes would have): thread 1 works through its own map_mut of the path
    for kind in kinds:
        c = dict(es.conc_cfg(cap=232, kind=kind, minseg=8, retries=2, backend="file", unify=True), two_maps=True)
        sc.append(("two_maps_" + kind, c, [AB(64), FILL(1), AB(72), FILL(2), AB(64), FILL(3), DROP(1)],
                   [[AB(16), FILL(T0), VER(T0), DROP(T0)], [DROP(2), AB(24), FILL(T1), VER(T1)]], {"live": True}))
    # teardown: every thread owns an arena value and drops it itself; the last one unmounts the memory
    for kind in ["opt"]:
        c = es.conc_cfg(cap=200, kind=kind, minseg=8, retries=2, own_clones=True)
        DA = {"k": "drop_arena"}
        sc.append(("teardown_" + kind, c, SETUP_ONESEG,
                   [[AB(16), FILL(T0), VER(T0), DROP(T0), DA], [AB(8), FILL(T1), DROP(T1), DA]], {"live": False}))
        sc.append(("clone_churn_" + kind, c, SETUP_FRESH,
                   [[{"k": "clone"}, {"k": "drop_clone"}, DA], [{"k": "clone"}, AB(8), FILL(T1), DROP(T1), {"k": "drop_clone"}, DA]],
                   {"live": True, "expect_live": True}))
    # fresh space: bump CAS contention and release of the topmost allocation
    for kind in ["opt", "none"]:
        c = es.conc_cfg(cap=200, kind=kind, minseg=8, retries=2)
        sc.append(("fresh_" + kind, c, SETUP_FRESH,
                   [[AB(24), FILL(T0), DROP(T0), AT(8, 8), FILL(T0 + 1)], [AB(40), FILL(T1), VER(T1), DROP(T1)]],
                   {"live": True, "expect_live": True}))
        # the same with sizes that change the cursor's residue mod 8 (a typed request's padding depends on where the cursor
        # is when its CAS finally succeeds -- after the other thread's release it may be lower than when it was read)
        sc.append(("fresh_residue_" + kind, c, SETUP_FRESH,
                   [[AT(8, 8), FILL(T0), VER(T0), AA(4, 4, 3), FILL(T0 + 1)], [AB(12), FILL(T1), DROP(T1), AB(5), FILL(T1 + 1), VER(T1 + 1)]],
                   {"live": True, "expect_live": True}))
        # ABA on the cursor: the other thread takes the top, writes it and gives it back between this thread's read of the
        # cursor and its (successful) CAS -- per entry point, since each has its own CAS
        for nm, first in (("aa", AA(8, 8, 4)), ("at", AT(8, 8)), ("ab", AB(9))):
            sc.append(("aba_cursor_%s_%s" % (nm, kind), c, SETUP_FRESH,
                       [[first, FILL(T0), VER(T0)], [AB(12), FILL(T1), DROP(T1)]], {"pb": True, "live": True, "expect_live": True}))
        sc.append(("fresh_last_bytes_" + kind, c, [AB(127), FILL(1)],
                   [[AB(64), FILL(T0), VER(T0)], [AB(64), FILL(T1), VER(T1)]], {"live": True, "expect_live": True}))
    if tier == "thorough":
        for kind in kinds:
            c = es.conc_cfg(cap=200, kind=kind, minseg=8, retries=2)
            sc.append(("three_threads_" + kind, c, SETUP_TWOSEG,
                       [[AB(8), FILL(T0), DROP(T0)], [DROP(2), AB(16), FILL(T1)], [AT(8, 8), FILL(T2), VER(T2)]], {"live": True}))
            sc.append(("pop_insert_pop_" + kind, c, SETUP_TWOSEG,
                       [[AB(24), FILL(T0), VER(T0), DROP(T0), AB(8), FILL(T0 + 1)], [DROP(2), AB(8), FILL(T1), DROP(4)]], {"live": False}))
    return sc


def random_schedule(rng, nthreads, length):
    """Bursty / PCT-like schedule prefix."""
    mode = rng.random()
    s = []
    if mode < 0.3:
        s = [rng.randrange(nthreads) for _ in range(length)]
    elif mode < 0.7:
        while len(s) < length:
            t = rng.randrange(nthreads)
            s += [t] * rng.choice([1, 2, 3, 5, 8, 13, 30])
    else:
        # priorities with a few change points
        prio = list(range(nthreads))
        rng.shuffle(prio)
        cps = sorted(rng.randrange(length) for _ in range(3))
        for i in range(length):
            if cps and i == cps[0]:
                cps.pop(0)
                prio.append(prio.pop(0))
            s.append(prio[0] if rng.random() < 0.85 else rng.choice(prio))
    return s[:length]


def random_program(rng, t, cap):
    base = (t + 1) * 50
    ops, k, mine = [], 0, []
    for _ in range(rng.randint(2, 6)):
        r = rng.random()
        if r > 0.93:
            ops.append(rng.choice([{"k": "setmin", "v": rng.choice([8, 16, 40])}, {"k": "incdisc", "v": rng.choice([1, 3])}]))
        elif r < 0.55 or not mine:
            k += 1
            h = base + k
            ops.append(rng.choice([AB(rng.choice([8, 16, 24, 40])), AB(rng.randint(1, 48)), AT(8, 8), AT(16, 16), AT(4, 4),
                                   AA(8, 8, rng.choice([0, 5, 16]))]))
            ops.append(FILL(h))
            mine.append(h)
        else:
            h = mine.pop(rng.randrange(len(mine)))
            ops += [VER(h), DROP(h)]
    for h in mine[:1]:
        ops.append(VER(h))
    return ops


def random_setup(rng, cap):
    ops, ids, used = [], [], 1
    while True:
        n = rng.choice([8, 16, 24, 32, 40, 56, 63])
        if used + n > cap:
            break
        ops += [AB(n), FILL(len(ids) + 1)]
        ids.append(len(ids) + 1)
        used += n
    rest = cap - used
    if rest > 0 and rng.random() < 0.7:
        ops += [AB(rest), FILL(len(ids) + 1)]
        ids.append(len(ids) + 1)
    drops = rng.sample(ids, k=min(len(ids), rng.randint(1, 3)))
    ops += [DROP(h) for h in drops]
    remaining = [h for h in ids if h not in drops]
    return ops, remaining


def _scenario_key(name, cfg, setup, progs, tier):
    return hashlib.sha256(json.dumps([rv.spec_hash(), rv.repo_hash(), name, cfg, setup, progs, tier], sort_keys=True).encode()).hexdigest()[:20]


def analyse_scenario(item):
    """Setup state from the real code, exhaustive safety + liveness in TLC, schedules from simulation."""
    (name, cfg, setup, progs, flags), tier, seed, binary = item
    cdir = rv.ensure_dir(os.path.join(rv.WORK, "sync_cache"))
    cfile = os.path.join(cdir, "%s-%s-%d.json" % (name, _scenario_key(name, cfg, setup, progs, tier), seed))
    if os.path.exists(cfile):
        with open(cfile) as f:
            return json.load(f)
    wd = os.path.join(rv.WORK, "mc", "sync_" + name)
    shutil.rmtree(wd, ignore_errors=True)
    txt, reset = es.setup_state(binary, cfg, setup, name)
    res = {"name": name, "cfg": cfg, "setup": setup, "progs": progs, "flags": flags, "setup_text": txt, "cex": []}
    t0 = time.time()
    m, c = es.write_mcsync(wd, "MCsafe", cfg, txt, progs)
    rc, out = rv.run_tlc(wd, m, c, workers=4, deque=False, timeout=1500, heap="6g")
    st = rv.tlc_stats(out)
    if st is None:
        raise ToolError("TLC failed on scenario %s: %s" % (name, out[-2000:]))
    res.update(generated=st[0], distinct=st[1], depth=st[2], safety_rc=rc)
    if rc != 0:
        inv = es.violated_property(out)
        sch = es.parse_error_trace_schedule(out)
        if inv is None or sch is None:
            raise ToolError("TLC error on scenario %s: %s" % (name, out[-2000:]))
        res["cex"].append({"kind": "safety", "prop": inv, "schedule": sch})
    if flags.get("live"):
        m, c = es.write_mcsync(wd, "MClive", cfg, txt, progs, liveness=True, invariants=False)
        rc, out = rv.run_tlc(wd, m, c, workers=4, deque=False, timeout=1500, heap="6g")
        st2 = rv.tlc_stats(out)
        if st2 is None:
            raise ToolError("TLC (liveness) failed on scenario %s: %s" % (name, out[-2000:]))
        res["liveness_rc"] = rc
        res["liveness_states"] = st2[1]
        if rc != 0:
            sch = es.parse_error_trace_schedule(out)
            if sch is None:
                raise ToolError("TLC liveness error without schedule on %s: %s" % (name, out[-2000:]))
            res["cex"].append({"kind": "liveness", "prop": "Termination", "schedule": sch})
    # C12: happens-before bookkeeping over every interleaving (orderings of the micro-op table)
    m, c = es.write_mcsync(wd, "MChb", cfg, txt, progs, hb=True)
    rc, out = rv.run_tlc(wd, m, c, workers=4, deque=False, timeout=900, heap="6g")
    st3 = rv.tlc_stats(out)
    if st3 is None and rc == 124 and rv.tlc_progress(out):
        # the vector-clock product of a three-thread scenario is not exhausted within the time limit: what was explored
        # (breadth first) held NoRace; reported as a bounded, not an exhaustive, exploration
        res["hb_rc"], res["hb_states"], res["hb_complete"] = 0, rv.tlc_progress(out)[1], False
        rc = 0
    elif st3 is None:
        raise ToolError("TLC (happens-before) failed on scenario %s: %s" % (name, out[-2000:]))
    else:
        res["hb_rc"] = rc
        res["hb_states"] = st3[1]
        res["hb_complete"] = rc == 0
    if rc != 0:
        sch = es.parse_error_trace_schedule(out)
        if es.violated_property(out) != "NoRace" or sch is None:
            raise ToolError("TLC (happens-before) error on %s: %s" % (name, out[-2000:]))
        res["cex"].append({"kind": "race", "prop": "NoRace", "schedule": sch})
    res["schedules"] = es.simulate_schedules(wd, "MCsim", cfg, txt, progs, 150 if tier == "quick" else 1500, seed)
    res["cover"] = es.cover_schedules(wd, "MCcov", cfg, txt, progs)
    res["wall"] = round(time.time() - t0, 1)
    shutil.rmtree(wd, ignore_errors=True)
    rv.dump_json_atomic(cfile, res)
    return res


def classify_stuck(ev):
    """Signature of a non-termination record, by root cause:
       linked-removed-node   : a node marked REMOVED (size 0) is still reachable from the sentinel although no thread is
                               about to unlink it (its remover abandoned it after a failed unlink CAS); every traversal spins
       unlinked-removed-node : the thread re-reads one REMOVED node that is no longer on the list (it holds a stale
                               reference and waits until the node's new owner gives the segment back)
       other                 : anything else (never listed as a known finding)"""
    out = []
    fl = ev["obs"]["fl"]
    linked_removed = any(x[1] == 0 for x in fl) or ev["obs"].get("fltrunc")
    mem = []
    for lo, ln, v in ev["mem"]:
        mem += [v] * ln
    for th in ev["x"]["threads"]:
        p = th.get("pending") or {}
        if ev["x"]["kind"] != "spin":
            cause = "step-budget"
        elif linked_removed:
            cause = "linked-removed-node"
        elif p.get("loc") == "node" and 0 <= p.get("off", -1) <= len(mem) - 8 and mem[p["off"] + 4:p["off"] + 8] == [0, 0, 0, 0]:
            cause = "unlinked-removed-node"
        else:
            cause = "other"
        out.append((th["t"], "C07:CallNeverReturns:cause=%s" % cause))
    return out


def run(prop, tier, seed):
    t0 = time.time()
    binary = rv.build_harness("dev")
    rng = random.Random(seed)
    scs = scenarios(tier)
    with ThreadPoolExecutor(max_workers=4) as ex:
        analysed = list(ex.map(analyse_scenario, [(s, tier, seed, binary) for s in scs]))
    log("ArenaSync: %d scenarios, %d distinct states, %d model counterexamples" % (
        len(analysed), sum(a["distinct"] for a in analysed), sum(len(a["cex"]) for a in analysed)))
    # ---- drivers
    drivers, impl_groups = [], {}
    flags_now = {sc_[0]: sc_[4] for sc_ in scs}
    for a in analysed:
        a["flags"] = flags_now.get(a["name"], a["flags"])   # (cached analyses may carry the flags of an earlier version)
        grp = []
        for i, cx in enumerate(a["cex"]):
            grp.append({"id": "cex:%s:%s:%d" % (a["name"], cx["prop"], i), "cfg": a["cfg"], "setup": a["setup"], "threads": a["progs"],
                        "schedule": cx["schedule"], "budget": 6000, "cex": cx})
        for i, s in enumerate(a["schedules"]):
            grp.append({"id": "sim:%s:%d" % (a["name"], i), "cfg": a["cfg"], "setup": a["setup"], "threads": a["progs"],
                        "schedule": s, "budget": 6000})
        for cv in a.get("cover", []):
            grp.append({"id": "cov:%s:%s" % (a["name"], cv["label"]), "cfg": a["cfg"], "setup": a["setup"], "threads": a["progs"],
                        "schedule": cv["schedule"], "budget": 6000})
        # preemption-bounded schedules (two context switches): thread a runs i steps, thread b runs j steps, a runs on, then b.
        # Windows such as "b read the head word, a popped / split / released it again, b resumes" are a handful of (i, j)
        # pairs among 2^40 interleavings: random sampling does not find them, this enumeration cannot miss them.
        if len(a["progs"]) == 2 and (a["flags"].get("pb") or tier == "thorough"):
            for first in (0, 1):
                for i in range(0, 9 if tier == "quick" else 13):
                    for j in range(1, 41 if tier == "quick" else 61):
                        grp.append({"id": "pb:%s:%d:%d:%d" % (a["name"], first, i, j), "cfg": a["cfg"], "setup": a["setup"], "threads": a["progs"],
                                    "schedule": [first] * i + [1 - first] * j + [first] * 80 + [1 - first] * 80, "budget": 6000})
        n_rand = 60 if tier == "quick" else 600
        for i in range(n_rand):
            grp.append({"id": "pct:%s:%d" % (a["name"], i), "cfg": a["cfg"], "setup": a["setup"], "threads": a["progs"],
                        "schedule": random_schedule(rng, len(a["progs"]), rng.choice([10, 30, 80])),
                        "tail_seed": rng.randrange(1, 1 << 30) if rng.random() < 0.5 else 0, "budget": 6000})
        impl_groups[a["name"]] = (a, grp)
        drivers += grp
    # random programs on random reachable free-list shapes (property level only)
    n_prog = 150 if tier == "quick" else 2000
    for i in range(n_prog):
        cap = rng.choice([128, 200, 256])
        kind = rng.choice(["opt", "pes", "opt", "pes", "none"])
        cfg = es.conc_cfg(cap=cap, kind=kind, minseg=rng.choice([8, 8, 16, 24]), retries=rng.choice([1, 2, 5]),
                          backend=rng.choice(["vec", "vec", "anon", "file"]), unify=rng.random() < 0.3)
        setup, _ = random_setup(rng, cap - (32 if (cfg["unify"] or cfg["backend"] == "file") else 1))
        nt = rng.choice([2, 2, 3, 4])
        progs = [random_program(rng, t, cap) for t in range(nt)]
        drivers.append({"id": "rnd:%d" % i, "cfg": cfg, "setup": setup, "threads": progs,
                        "schedule": random_schedule(rng, nt, rng.choice([20, 60, 150])),
                        "tail_seed": rng.randrange(1, 1 << 30), "budget": 20000})
    # the witness of every listed finding is replayed on every run
    for k, e in enumerate(rv.load_findings()):
        if e.get("property") in ("C02", "C07") and e.get("witness"):
            w = dict(e["witness"])
            w["id"] = "wit:%s:%d" % (e["property"], k)
            drivers.append(w)
    # ---- run on the real code
    th = time.time()
    trace = es.run_conc(binary, drivers, "check-%s-%s" % (prop, tier))
    t_h = time.time() - th
    tv = time.time()
    pr = rv.validate_trace(trace, "TraceSyncProp.tla", "TraceSyncProp.cfg", "sync-%s-prop" % prop)
    lines = pr["lines"]
    races = []
    if prop == "C12":
        hbres = rv.validate_trace(trace, "TraceHB.tla", "TraceHB.cfg", "sync-%s-hb" % prop)
        pr["viol"] += hbres["viol"]
        races = hbres["races"]
    # implementation-level conformance per scenario (model-derived and random schedules of the scenario programs)
    drift = []
    wd = os.path.join(rv.WORK, "val", "sync-%s-impl" % prop)
    shutil.rmtree(wd, ignore_errors=True)
    rv.ensure_dir(wd)
    # split the trace per scenario
    per = {}
    cur = None
    for ln in lines:
        if ln.startswith('{"cfg"') or '"ev":"reset"' in ln[:600]:
            did = json.loads(ln)["id"]
            parts = did.split(":")
            cur = parts[1] if parts[0] in ("cex", "sim", "pct", "cov", "pb") else None
        if cur:
            per.setdefault(cur, []).append(ln)

    def impl_one(name):
        a, _ = impl_groups[name]
        tf = os.path.join(wd, name + ".ndjson")
        with open(tf, "w") as f:
            f.writelines(per.get(name, []))
        d = es.validate_impl(tf, os.path.join(wd, name), "TS_" + name, a["cfg"], a["setup_text"], a["progs"])
        return [(name, x) for x in d]

    with ThreadPoolExecutor(max_workers=rv.NPROC) as ex:
        for r in ex.map(impl_one, [n for n in impl_groups if per.get(n)]):
            for name, (gl, th_, what) in r:
                drift.append({"what": what, "driver": name, "i": gl, "arena": th_, "op": None})
    t_v = time.time() - tv
    log("conc: %d drivers, %d events, %d VIOL, %d DRIFT (harness %.1fs, validation %.1fs)" % (
        len(drivers), len(lines), len(pr["viol"]), len(drift), t_h, t_v))
    by_id = {d["id"]: d for d in drivers}
    # ---- verdicts
    viol = []
    stuck_by_driver = {}
    cur = None
    for ln in lines:
        if '"ev":"reset"' in ln[:600] or ln.startswith('{"cfg"'):
            cur = json.loads(ln)["id"]
        elif ln.startswith('{"ev":"stuck"'):
            stuck_by_driver[cur] = json.loads(ln)
    for (p, pred, gline, th_) in pr["viol"]:
        reset, ev = rv.locate(lines, gline)
        did = reset["id"] if reset else None
        v = {"prop": p, "pred": pred, "driver": did, "i": gline, "arena": th_, "op": ev.get("op"), "res": ev.get("res"),
             "driver_obj": {k: by_id[did][k] for k in ("id", "cfg", "setup", "threads", "schedule", "budget", "tail_seed") if k in by_id.get(did, {})}}
        if p == "C07" and did in stuck_by_driver:
            sigs = dict(classify_stuck(stuck_by_driver[did]))
            v["sig"] = sigs.get(th_, "C07:%s" % pred)
        elif p == "C12":
            rs = sorted({"%s/%s" % (a, b) for (gl, a, b) in races if gl == gline})
            v["sig"] = "C12:DataRace:%s" % (",".join(rs) or "?")
        else:
            v["sig"] = "%s:%s@%s" % (p, pred, (ev.get("op") or {}).get("k"))
        viol.append(v)
    # model counterexamples must reproduce on the real code
    for a in analysed:
        for i, cx in enumerate(a["cex"]):
            did = "cex:%s:%s:%d" % (a["name"], cx["prop"], i)
            want = {"liveness": "C07", "race": "C12"}.get(cx["kind"], "C13" if cx["prop"].startswith(("Freed", "NoAccessAfter")) else "C02")
            if want == "C12" and prop != "C12":
                continue  # the happens-before monitor only runs for C12
            if not [v for v in viol if v["driver"] == did and v["prop"] == want]:
                # model and code disagree on this schedule: DRIFT (TraceSyncImpl says at which access), never a verdict
                drift.append({"what": "model-counterexample-not-reproduced:" + cx["prop"], "driver": did, "i": 0, "arena": 0, "op": None})
        if a["flags"].get("expect_live") and a.get("liveness_rc"):
            log("note: liveness counterexample in scenario %s where none was expected" % a["name"])
    mine = [v for v in viol if v["prop"] == prop]
    n_sim = sum(len(a["schedules"]) for a in analysed)
    stuck_n = len(stuck_by_driver)
    coverage = {
        "states": sum(a["distinct"] for a in analysed) + sum(a.get("liveness_states", 0) for a in analysed) + sum(a.get("hb_states", 0) for a in analysed),
        "transitions": sum(a["generated"] for a in analysed),
        "traces_validated_against_impl": sum(len(g) for (_, g) in impl_groups.values()),
        "samples": [{"scenario": analysed[0]["name"], "programs": analysed[0]["progs"], "schedule": (analysed[0]["schedules"] or [[]])[0][:40]}],
        "evaluations": len(drivers),
        "distinct_nontrivial": len({json.dumps(d["schedule"]) + d["id"].split(":")[1] for d in drivers if d["id"].split(":")[0] in ("sim", "cex", "pct", "cov", "pb")}),
        "rule": "every interleaving of %d scenarios explored exhaustively by TLC (safety invariants; liveness under weak fairness where flagged); "
                "real executions = TLC simulation schedules + TLC counterexample schedules + seeded bursty/PCT schedules + random programs; "
                "non-trivial = distinct (scenario, schedule) pairs forced on the real code" % len(analysed),
        "exhaustive": False,
        "scenarios": [{"name": a["name"], "distinct": a["distinct"], "depth": a["depth"], "safety_rc": a["safety_rc"],
                       "liveness_rc": a.get("liveness_rc"), "hb_rc": a.get("hb_rc"), "hb_states": a.get("hb_states"), "hb_complete": a.get("hb_complete"), "schedules": len(a["schedules"]), "cex": [c["prop"] for c in a["cex"]]} for a in analysed],
        "model_counterexamples_replayed": sum(len(a["cex"]) for a in analysed),
        "executions_stuck": stuck_n,
        "events": len(lines),
        # non-vacuity of the binding: which arms of the micro-op table the real code executed (matched access by access)
        "micro_op_labels_executed_by_real_code": sorted(es.LABELS_SEEN),
        "micro_op_labels_never_executed": sorted(set(es.all_labels()) - es.LABELS_SEEN),
        # arms no interleaving of any scenario reaches in the model (exhaustive): dead in the repaired protocol, or not exercised
        "micro_op_labels_unreachable_in_model": sorted(set(es.all_labels()) - {cv["label"] for a in analysed for cv in a.get("cover", [])}),
    }
    assumptions = [
        "interleaving (sequentially consistent) semantics at the granularity of the crate's atomic accesses; weak-memory-only behaviours are not enumerated",
        "ArenaSync is hand-written; every access of every replayed schedule is matched against it by TraceSyncImpl (DRIFT otherwise)",
        "fair scheduling is approximated on the real code by a round-robin / aged random tail; a call is judged non-terminating when nobody wrote for 400 steps although every unfinished thread was scheduled >= 60 times in that window",
    ]
    return verdict.finish(prop, tier, seed, t0, coverage, mine, drift, assumptions=assumptions,
                          replay_payload={"engine": "sync", "tier": tier, "seed": seed})


def run_teardown(tier, seed):
    """C13, multi-threaded part: clone / drop of arena values on different threads (own_clones scenarios)."""
    binary = rv.build_harness("dev")
    rng = random.Random(seed + 5)
    scs = [s for s in scenarios(tier) if s[1].get("own_clones")]
    with ThreadPoolExecutor(max_workers=4) as ex:
        analysed = list(ex.map(analyse_scenario, [(s, tier, seed, binary) for s in scs]))
    drivers = []
    for a in analysed:
        for i, cx in enumerate(a["cex"]):
            drivers.append({"id": "cex:%s:%s:%d" % (a["name"], cx["prop"], i), "cfg": a["cfg"], "setup": a["setup"], "threads": a["progs"],
                            "schedule": cx["schedule"], "budget": 6000})
        for i, sc in enumerate(a["schedules"]):
            drivers.append({"id": "sim:%s:%d" % (a["name"], i), "cfg": a["cfg"], "setup": a["setup"], "threads": a["progs"], "schedule": sc, "budget": 6000})
        for i in range(80 if tier == "quick" else 800):
            drivers.append({"id": "pct:%s:%d" % (a["name"], i), "cfg": a["cfg"], "setup": a["setup"], "threads": a["progs"],
                            "schedule": random_schedule(rng, len(a["progs"]), rng.choice([10, 30, 80])), "budget": 6000})
    trace = es.run_conc(binary, drivers, "teardown-%s" % tier)
    pr = rv.validate_trace(trace, "TraceSyncProp.tla", "TraceSyncProp.cfg", "teardown-prop")
    lines = pr["lines"]
    by_id = {d["id"]: d for d in drivers}
    viol = []
    for (p, pred, gl, th_) in pr["viol"]:
        if p != "C13":
            continue
        reset, ev = rv.locate(lines, gl)
        did = reset["id"]
        viol.append({"prop": p, "pred": pred, "driver": did, "i": gl, "arena": th_, "op": ev.get("op"), "res": ev.get("res"),
                     "sig": "C13:%s@concurrent-teardown" % pred, "driver_obj": dict(by_id[did], engine="sync")})
    for a in analysed:
        for i, cx in enumerate(a["cex"]):
            if cx["prop"].startswith(("Freed", "NoAccessAfter")):
                did = "cex:%s:%s:%d" % (a["name"], cx["prop"], i)
                if not [v for v in viol if v["driver"] == did]:
                    raise ToolError("model counterexample %s does not reproduce on the real code" % did)
    # implementation-level conformance of the reference-count / unmount steps
    drift = []
    wd = os.path.join(rv.WORK, "val", "teardown-impl")
    shutil.rmtree(wd, ignore_errors=True)
    rv.ensure_dir(wd)
    per, cur = {}, None
    for ln in lines:
        if ln.startswith('{"cfg"') or '"ev":"reset"' in ln[:600]:
            cur = json.loads(ln)["id"].split(":")[1]
        per.setdefault(cur, []).append(ln)
    for a in analysed:
        tf = os.path.join(wd, a["name"] + ".ndjson")
        with open(tf, "w") as f:
            f.writelines(per.get(a["name"], []))
        for (gl, th_, what) in es.validate_impl(tf, os.path.join(wd, a["name"]), "TS_" + a["name"], a["cfg"], a["setup_text"], a["progs"]):
            drift.append({"what": what, "driver": a["name"], "i": gl, "arena": th_, "op": None})
    cov = {"states": sum(a["distinct"] for a in analysed), "transitions": sum(a["generated"] for a in analysed),
           "drivers": len(drivers), "events": len(lines)}
    return cov, viol, drift


def replay(payload):
    d = payload["driver"]
    prop = payload["property"]
    binary = rv.build_harness("dev")
    trace = es.run_conc(binary, [d], "replay")
    pr = rv.validate_trace(trace, "TraceSyncProp.tla", "TraceSyncProp.cfg", "sync-replay", parts=1)
    hits = [v for v in pr["viol"] if v[0] == prop]
    for v in hits:
        print("VIOL %s %s line %d thread %d" % v)
    print("replay: %d violation event(s) of %s reproduced" % (len(hits), prop))
    return 1 if hits else 0
