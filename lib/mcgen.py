"""Generation of TLC model-checking configurations (MC wrapper module + .cfg) for the MCSeq module."""
import os

from rv import ensure_dir


def tla_set(items):
    return "{" + ", ".join(items) + "}"


def tla_val(v):
    if isinstance(v, bool):
        return "TRUE" if v else "FALSE"
    if isinstance(v, int):
        return str(v)
    if isinstance(v, str):
        return '"%s"' % v
    raise ValueError(v)


def T(s, a):
    return "[size |-> %d, align |-> %d]" % (s, a)


DEFAULTS = dict(
    Cap=96, Reserved=0, Unify=False, Kind="opt", Backend="vec", MinSeg0=8, FixedRewind=True,
    MaxAllocs=6, MaxLive=4, MaxLen=5,
    ByteSizes=[0, 5, 16, 24, 40], TypeSet=[(8, 8), (16, 16)], AlignedSet=[((8, 8), 5)],
    OwnedToo=False, MinSegSet=[8, 24], IncSet=[], RewindSet=[], TruncSet=[], WithClear=False, WithLeak=False,
    Emit=False, Prefix=[], WithReopen=False, WithClone=False, WithFit=False, HistView=False,
)


def tla_op(op):
    parts = []
    for k, v in op.items():
        parts.append("%s |-> %s" % (k, tla_val(v)))
    return "[" + ", ".join(parts) + "]"


def write_mcseq(workdir, name, **params):
    """Write <name>.tla / <name>.cfg into workdir; returns (module file, cfg file, effective params)."""
    p = dict(DEFAULTS)
    p.update(params)
    ensure_dir(workdir)
    mod = os.path.join(workdir, name + ".tla")
    cfg = os.path.join(workdir, name + ".cfg")
    with open(mod, "w") as f:
        f.write("---- MODULE %s ----\nEXTENDS MCSeq\n" % name)
        f.write("mcBytes == %s\n" % tla_set(str(x) for x in p["ByteSizes"]))
        f.write("mcTypes == %s\n" % tla_set(T(s, a) for (s, a) in p["TypeSet"]))
        f.write("mcAligned == %s\n" % tla_set("<<%s, %d>>" % (T(*t), n) for (t, n) in p["AlignedSet"]))
        f.write("mcMinSeg == %s\n" % tla_set(str(x) for x in p["MinSegSet"]))
        f.write("mcInc == %s\n" % tla_set(str(x) for x in p["IncSet"]))
        f.write("mcRewind == %s\n" % tla_set('<<"%s", %d>>' % (q, v) for (q, v) in p["RewindSet"]))
        f.write("mcTrunc == %s\n" % tla_set(str(x) for x in p["TruncSet"]))
        f.write("mcPrefix == <<%s>>\n" % ", ".join(tla_op(o) for o in p["Prefix"]))
        f.write("====\n")
    with open(cfg, "w") as f:
        f.write("SPECIFICATION Spec\nVIEW View\nCONSTANTS\n")
        for k in ["Cap", "Reserved", "Unify", "Kind", "Backend", "MinSeg0", "FixedRewind", "MaxAllocs", "MaxLive",
                  "MaxLen", "OwnedToo", "WithClear", "WithLeak", "WithReopen", "WithClone", "WithFit", "HistView", "Emit"]:
            f.write("  %s = %s\n" % (k, tla_val(p[k])))
        f.write("  ByteSizes <- mcBytes\n  TypeSet <- mcTypes\n  AlignedSet <- mcAligned\n  MinSegSet <- mcMinSeg\n"
                "  IncSet <- mcInc\n  RewindSet <- mcRewind\n  TruncSet <- mcTrunc\n  Prefix <- mcPrefix\n")
        f.write("INVARIANTS LiveDisjoint LiveInBounds LiveIntactInv RefsInv TypeOK\nCHECK_DEADLOCK FALSE\n")
    return name + ".tla", name + ".cfg", p
