#!/usr/bin/env python3
"""Seeded changes: confirm a change produced by an independent sub-agent and run our checks against it.

  seedtool.py confirm <ID> <src dir with patch.diff, seed_demo.rs, meta.json> [check ids...]

 1. fresh scratch worktree of /repo HEAD under /tmp (never /repo itself);
 2. demo on the unchanged tree must PASS; apply patch.diff; the crate's own suite must still PASS (68 + 42);
    demo must FAIL;
 3. run the given checks (default: the property the change targets) against the patched tree (RV_REPO=...);
 4. write /verif/seeded/<ID>/{patch.diff, seed_demo.rs, meta.json}; remove the worktree and its build output.
"""
import json
import os
import re
import shutil
import subprocess
import sys
import time

VERIF = os.path.dirname(os.path.dirname(os.path.abspath(__file__)))


def sh(cmd, cwd=None, timeout=3600, env=None):
    e = dict(os.environ)
    if env:
        e.update(env)
    p = subprocess.run(cmd, shell=True, cwd=cwd, stdout=subprocess.PIPE, stderr=subprocess.STDOUT, text=True, timeout=timeout, env=e)
    return p.returncode, p.stdout


def passed_counts(out):
    return [int(x) for x in re.findall(r"test result: \w+\. (\d+) passed", out)]


def confirm(sid, src, checks):
    meta = json.load(open(os.path.join(src, "meta.json")))
    prop = meta["property"]
    wt = "/tmp/cf_%s" % sid
    sh("git -C /repo worktree remove --force %s" % wt)
    shutil.rmtree(wt, ignore_errors=True)
    rc, out = sh("git -C /repo worktree add -q %s HEAD" % wt)
    if rc != 0:
        raise SystemExit("worktree: " + out)
    res = {"confirmed_at": time.strftime("%Y-%m-%d %H:%M:%S"), "base_commit": sh("git -C /repo rev-parse --short HEAD")[1].strip()}
    demo = os.path.join(src, "seed_demo.rs")
    has_demo = os.path.exists(demo)
    feat = "--features memmap" if "memmap" in meta.get("demo_cmd", "") else ""
    demo_cmd = "cargo test --offline -p rarena-allocator %s --test seed_demo 2>&1 | tail -40" % feat
    if "miri" in meta.get("demo_cmd", ""):
        # the demonstration needs a happens-before judge: run it under Miri (a few seeds)
        demo_cmd = ("for s in 0 1 2; do MIRIFLAGS=-Zmiri-seed=$s cargo +nightly miri test --offline -p rarena-allocator %s --test seed_demo 2>&1 "
                    "| grep -E 'test result|Data race|Undefined Behavior|FAILED|panicked' ; done | tail -40" % feat)
    try:
        if has_demo:
            os.makedirs(os.path.join(wt, "rarena-allocator", "tests"), exist_ok=True)
            shutil.copy(demo, os.path.join(wt, "rarena-allocator", "tests", "seed_demo.rs"))
            rc, out = sh(demo_cmd, cwd=wt)
            res["demo_without_change"] = "pass" if "test result: ok" in out and "FAILED" not in out and "Data race" not in out and "Undefined Behavior" not in out else "FAIL"
            res["demo_without_tail"] = out[-300:]
        rc, out = sh("git apply %s" % os.path.join(src, "patch.diff"), cwd=wt)
        res["patch_applies"] = rc == 0
        if rc != 0:
            res["apply_error"] = out[-500:]
            return finish(sid, src, meta, res, wt)
        if has_demo:
            os.rename(os.path.join(wt, "rarena-allocator", "tests", "seed_demo.rs"), os.path.join(wt, "seed_demo.rs.off"))
        rc, out = sh("cargo test --workspace --no-fail-fast --offline 2>&1 | grep -E '^test result|FAILED|error(\\[|:)' | head -20", cwd=wt)
        counts = passed_counts(out)
        res["baseline_with_change"] = {"passed": counts, "ok": "FAILED" not in out and "error" not in out and 68 in counts and 42 in counts}
        if has_demo:
            os.rename(os.path.join(wt, "seed_demo.rs.off"), os.path.join(wt, "rarena-allocator", "tests", "seed_demo.rs"))
            rc, out = sh(demo_cmd, cwd=wt)
            res["demo_with_change"] = "FAIL" if "FAILED" in out or "panicked" in out or "Data race" in out or "Undefined Behavior" in out else "pass"
            res["demo_with_tail"] = out[-400:]
            os.remove(os.path.join(wt, "rarena-allocator", "tests", "seed_demo.rs"))
        res["checks"] = {}
        for c in checks or [prop]:
            t0 = time.time()
            rc, out = sh("./bin/check %s --tier quick 2>&1 | tail -40" % c, cwd=VERIF, env={"RV_REPO": wt}, timeout=5400)
            viol = re.findall(r"^VIOLATION property=(\w+)", out, re.M)
            sigs = re.findall(r"^  (C\d+:\S+)", out, re.M)
            verdict = "CAUGHT" if viol else ("TOOL-ERROR" if "TOOL-ERROR" in out else ("DRIFT-ONLY" if "DRIFT property" in out else "missed"))
            res["checks"][c] = {"verdict": verdict, "violations": len(viol), "signatures": sigs[:8], "drift": "DRIFT property" in out,
                                "wall_s": round(time.time() - t0), "tail": out[-600:] if verdict in ("missed", "TOOL-ERROR") else ""}
            print("  check %s on %s: %s %s" % (c, sid, verdict, sigs[:3]), flush=True)
    finally:
        pass
    return finish(sid, src, meta, res, wt)


def finish(sid, src, meta, res, wt):
    out = os.path.join(VERIF, "seeded", sid)
    os.makedirs(out, exist_ok=True)
    for f in ("patch.diff", "seed_demo.rs", "argument.md"):
        if os.path.exists(os.path.join(src, f)):
            shutil.copy(os.path.join(src, f), os.path.join(out, f))
    meta = dict(meta)
    meta["id"] = sid
    meta["confirmation"] = res
    meta["what_was_run"] = ["demo on the unchanged tree", "git apply patch.diff", "cargo test --workspace --no-fail-fast --offline (68+42)",
                            "demo on the changed tree"] + ["RV_REPO=<patched tree> ./bin/check %s --tier quick" % c for c in res.get("checks", {})]
    json.dump(meta, open(os.path.join(out, "meta.json"), "w"), indent=1)
    sh("git -C /repo worktree remove --force %s" % wt)
    shutil.rmtree(wt, ignore_errors=True)
    shutil.rmtree(os.path.join(VERIF, "work", "alt", os.path.basename(wt)), ignore_errors=True)
    print(json.dumps({k: res.get(k) for k in ("demo_without_change", "patch_applies", "baseline_with_change", "demo_with_change")}))
    print({c: v["verdict"] for c, v in res.get("checks", {}).items()})
    return 0


def harmless(hid, patch, checks):
    """A change under which every property still holds: apply it in a scratch worktree, run the crate's suite and the given
    checks (default: all 20) against it; expected: exit 0 everywhere, no VIOLATION, no TOOL-ERROR (DRIFT is fine)."""
    wt = "/tmp/cf_%s" % hid
    sh("git -C /repo worktree remove --force %s" % wt)
    shutil.rmtree(wt, ignore_errors=True)
    rc, out = sh("git -C /repo worktree add -q %s HEAD" % wt)
    if rc != 0:
        raise SystemExit("worktree: " + out)
    res = {"id": hid, "base_commit": sh("git -C /repo rev-parse --short HEAD")[1].strip(), "checks": {}}
    try:
        rc, out = sh("git apply %s" % patch, cwd=wt)
        res["patch_applies"] = rc == 0
        if rc == 0:
            rc, out = sh("cargo test --workspace --no-fail-fast --offline 2>&1 | grep -E '^test result|FAILED|error(\\[|:)' | head -20", cwd=wt)
            counts = passed_counts(out)
            res["baseline_with_change"] = {"passed": counts, "ok": "FAILED" not in out and "error" not in out and 68 in counts and 42 in counts}
            for c in checks or ["C%02d" % i for i in range(1, 21)]:
                t0 = time.time()
                rc, out = sh("./bin/check %s --tier quick 2>&1 | tail -40" % c, cwd=VERIF, env={"RV_REPO": wt}, timeout=5400)
                viol = re.findall(r"^VIOLATION property=(\w+)", out, re.M)
                verdict = "ALARM" if viol else ("TOOL-ERROR" if "TOOL-ERROR" in out or "Traceback" in out else ("quiet+DRIFT" if "DRIFT property" in out else "quiet"))
                first = re.findall(r"^DRIFT property=.*$", out, re.M)
                res["checks"][c] = {"verdict": verdict, "wall_s": round(time.time() - t0), "drift": (first[0][:260] if first else ""),
                                    "tail": out[-900:] if verdict in ("ALARM", "TOOL-ERROR") else ""}
                print("  check %s on %s: %s" % (c, hid, verdict), flush=True)
    finally:
        sh("git -C /repo worktree remove --force %s" % wt)
        shutil.rmtree(wt, ignore_errors=True)
        shutil.rmtree(os.path.join(VERIF, "work", "alt", os.path.basename(wt)), ignore_errors=True)
    out = os.path.join(VERIF, "seeded", "harmless")
    os.makedirs(out, exist_ok=True)
    shutil.copy(patch, os.path.join(out, hid + ".diff"))
    json.dump(res, open(os.path.join(out, hid + ".result.json"), "w"), indent=1)
    print({c: v["verdict"] for c, v in res["checks"].items()})
    return 0


if __name__ == "__main__":
    if sys.argv[1] == "harmless":
        sys.exit(harmless(sys.argv[2], sys.argv[3], sys.argv[4:]))
    if sys.argv[1] == "confirm":
        sys.exit(confirm(sys.argv[2], sys.argv[3], sys.argv[4:]))
