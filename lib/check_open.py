"""C09 (first half): opening validates the file; a refused or read-only open never alters it.
ArenaFile.tla (open procedures step by step) model-checked over every file class x attempt (MCFile); real open
attempts on valid and damaged files (harness `open`) judged by TraceOpen (VIOL) and compared with the model (DRIFT)."""
import json
import os
import random
import shutil
import time

import rv
from rv import ToolError, log

FIXED_ORDER = True   # memory.rs validates before zeroing since the fix: commit (see known_findings.json)


def mc_file():
    key = rv.spec_hash("mcfile%s" % FIXED_ORDER)[:16]
    cf = os.path.join(rv.ensure_dir(rv.MC_CACHE), "mcfile-%s.json" % key)
    if os.path.exists(cf):
        return json.load(open(cf))
    wd = os.path.join(rv.WORK, "mc", "file")
    shutil.rmtree(wd, ignore_errors=True)
    rv.ensure_dir(wd)
    with open(os.path.join(wd, "MCFile.cfg"), "w") as f:
        f.write("SPECIFICATION Spec\nCONSTANT FixedOrder = %s\nINVARIANT Inv\nCHECK_DEADLOCK FALSE\n" % ("TRUE" if FIXED_ORDER else "FALSE"))
    rc, out = rv.run_tlc(wd, "MCFile.tla", "MCFile.cfg", workers=4, deque=False, timeout=900)
    st = rv.tlc_stats(out)
    if st is None:
        raise ToolError("MCFile failed: %s" % out[-1500:])
    res = {"rc": rc, "generated": st[0], "distinct": st[1], "depth": st[2]}
    rv.dump_json_atomic(cf, res)
    shutil.rmtree(wd, ignore_errors=True)
    return res


def drivers(tier, seed):
    rng = random.Random(seed + 41)
    ds = []
    kinds = ["none", "opt", "pes"]
    hist = [{"k": "ab", "n": 16, "o": False}, {"k": "ab", "n": 24, "o": False}, {"k": "at", "s": 8, "a": 8, "o": False},
            {"k": "drop", "h": 2}, {"k": "ab", "n": 5, "o": False},
            # filled, then released from the top: the cursor goes back and non-zero bytes stay above it
            {"k": "ab", "n": 40, "o": False}, {"k": "drop", "h": 5}]
    n = 0
    for flavor in ["sync", "unsync"]:
        for res in [0, 5]:
            base = {"cap": 160, "reserved": res, "kind": "opt", "minseg": 8, "magic": 5}
            ident = res  # identification bytes start right after the reserved prefix
            prefix = ((res + 7) // 8) * 8 + 32
            muts = [[]]
            # any of the eight identification bytes to a few values
            for k in range(8):
                for v in ([0, 1, 2, 3, 97, 108, 255] if tier == "quick" else list(range(0, 256, 5)) + [1, 2, 97, 108, 255]):
                    muts.append([{"k": "set", "at": ident + k, "bytes": [v]}])
            # truncations
            for ln in sorted({0, 1, res, res + 7, res + 8, prefix - 1, prefix, prefix + 1, 60, 100, 159}):
                muts.append([{"k": "truncate", "len": ln}])
            # arbitrary bytes / stored cursor damaged
            muts.append([{"k": "fill", "v": 0}])
            muts.append([{"k": "fill", "v": 255}])
            muts.append([{"k": "fill", "v": 97}])
            for _ in range(6 if tier == "quick" else 60):
                muts.append([{"k": "replace", "bytes": [rng.randrange(256) for _ in range(rng.choice([10, 40, 160, 300]))]}])
            muts.append([{"k": "remove"}])
            for mu in muts:
                atts = []
                for variant in ["map_mut", "map_copy", "map", "map_copy_ro"]:
                    for cap in ([0, 160] if tier == "quick" else [0, 100, 160, 300]):
                        atts.append({"variant": variant, "cap": cap, "reserved": res, "kind": "opt", "magic": 5, "minseg": 8,
                                     "create": False, "create_new": False})
                # a read-only open strips the caller's write-side flags: an Options value that still says truncate(true)
                for variant in ["map", "map_copy_ro"]:
                    atts.append({"variant": variant, "cap": 0, "reserved": res, "kind": "opt", "magic": 5, "minseg": 8,
                                 "create": False, "create_new": False, "truncate": True})
                # open(2) flags on the writable variants: truncate (empties an existing file before the code looks at it),
                # append, both (refused by std before any system call), with and without create / a capacity
                for variant in ["map_mut", "map_copy"]:
                    for (tr, ap, cr, cap) in [(True, False, False, 0), (True, False, True, 160), (False, True, False, 0), (False, True, True, 300),
                                              (True, True, False, 0), (True, True, True, 160)]:
                        atts.append({"variant": variant, "cap": cap, "reserved": res, "kind": "opt", "magic": 5, "minseg": 8,
                                     "create": cr and variant == "map_mut", "create_new": False, "truncate": tr, "append": ap})
                atts.append({"variant": "map_mut", "cap": 160, "reserved": res, "kind": "opt", "magic": 5, "minseg": 8,
                             "create": False, "create_new": True, "truncate": True, "append": True})
                # expectations that differ from the file
                atts.append({"variant": "map_mut", "cap": 0, "reserved": res, "kind": "pes", "magic": 5, "minseg": 8, "create": False, "create_new": False})
                atts.append({"variant": "map_mut", "cap": 0, "reserved": res, "kind": "opt", "magic": 6, "minseg": 8, "create": False, "create_new": False})
                atts.append({"variant": "map", "cap": 0, "reserved": res, "kind": "opt", "magic": 6, "minseg": 8, "create": False, "create_new": False})
                atts.append({"variant": "map_mut", "cap": 300, "reserved": res, "kind": "opt", "magic": 6, "minseg": 8, "create": True, "create_new": False})
                atts.append({"variant": "map_mut", "cap": 160, "reserved": res, "kind": "opt", "magic": 5, "minseg": 8, "create": False, "create_new": True})
                # each attempt on its own copy of the damaged file (a refused writable open may already have altered it)
                for a in atts:
                    ds.append({"id": "open:%d" % n, "flavor": flavor, "base": base, "history": hist, "mut": mu, "attempts": [a]})
                    n += 1
            # "any of the eight identification bytes to any value": all 8 x 256, through a writable and a read-only variant
            # (quick, prefix-less layout) or through every variant (thorough, both layouts)
            if res == 0 or tier != "quick":
                for k in range(8):
                    for v in range(256):
                        for variant in (["map_mut", "map"] if tier == "quick" else ["map_mut", "map_copy", "map", "map_copy_ro"]):
                            a = {"variant": variant, "cap": 0, "reserved": res, "kind": "opt", "magic": 5, "minseg": 8,
                                 "create": False, "create_new": False}
                            ds.append({"id": "open:%d" % n, "flavor": flavor, "base": base, "history": hist,
                                       "mut": [{"k": "set", "at": ident + k, "bytes": [v]}], "attempts": [a]})
                            n += 1
    # the arena mapped at a file offset (page aligned and not): the same file classes, seen from the offset; truncations may
    # cut into the foreign bytes in front of the arena
    for flavor in ["sync", "unsync"]:
        for off in [4096, 104]:   # (an offset that is not a multiple of 8 misaligns the header: see DESIGN section 12)
            res = 0
            base = {"cap": 160, "reserved": res, "kind": "opt", "minseg": 8, "magic": 5, "offset": off}
            prefix = 32
            muts = [[]]
            for k in range(8):
                for v in [0, 3, 97, 255]:
                    muts.append([{"k": "set", "at": k, "bytes": [v]}])
            for ln in sorted({-off, -off + 1, -1, 0, 1, 8, prefix - 1, prefix, prefix + 1, 100, 159}):
                muts.append([{"k": "truncate", "len": ln}])
            muts.append([{"k": "fill", "v": 255}])
            muts.append([{"k": "replace", "bytes": [rng.randrange(256) for _ in range(200)]}])
            muts.append([{"k": "remove"}])
            for mu in muts:
                atts = []
                for variant in ["map_mut", "map_copy", "map", "map_copy_ro"]:
                    for cap in [0, 160, 300]:
                        atts.append({"variant": variant, "cap": cap, "reserved": res, "kind": "opt", "magic": 5, "minseg": 8,
                                     "create": False, "create_new": False, "offset": off})
                atts.append({"variant": "map_mut", "cap": 0, "reserved": res, "kind": "opt", "magic": 5, "minseg": 8, "create": False, "create_new": False, "offset": off, "truncate": True})
                atts.append({"variant": "map_mut", "cap": 300, "reserved": res, "kind": "opt", "magic": 5, "minseg": 8, "create": True, "create_new": False, "offset": off, "append": True})
                atts.append({"variant": "map_mut", "cap": 0, "reserved": res, "kind": "pes", "magic": 5, "minseg": 8, "create": False, "create_new": False, "offset": off})
                atts.append({"variant": "map_mut", "cap": 300, "reserved": res, "kind": "opt", "magic": 6, "minseg": 8, "create": True, "create_new": False, "offset": off})
                atts.append({"variant": "map_mut", "cap": 160, "reserved": res, "kind": "opt", "magic": 5, "minseg": 8, "create": False, "create_new": True, "offset": off})
                for a in atts:
                    ds.append({"id": "open:%d" % n, "flavor": flavor, "base": base, "history": hist, "mut": mu, "attempts": [a]})
                    n += 1
    for d in ds:
        for a in d["attempts"]:
            a.setdefault("offset", 0)
    return ds


def run(prop, tier, seed):
    import verdict
    t0 = time.time()
    mc = mc_file()
    if mc["rc"] != 0 and FIXED_ORDER:
        raise ToolError("ArenaFile model violates its invariants (rc=%s)" % mc["rc"])
    binary = rv.build_harness("dev")
    ds = drivers(tier, seed)
    wd = rv.ensure_dir(os.path.join(rv.WORK, "open"))
    dfile, tfile = os.path.join(wd, "drivers.ndjson"), os.path.join(wd, "trace.ndjson")
    rv.write_ndjson(dfile, ds)
    rv.run_harness(binary, "open", [dfile, tfile, os.path.join(wd, "files")], timeout=900)
    shutil.rmtree(os.path.join(wd, "files"), ignore_errors=True)
    cfg_text = "SPECIFICATION Spec\nCONSTANT FixedOrder = %s\nPOSTCONDITION Post\nCHECK_DEADLOCK FALSE\n" % ("TRUE" if FIXED_ORDER else "FALSE")
    r = rv.validate_trace(tfile, "TraceOpen.tla", "TraceOpen.cfg", "open", cfg_text=cfg_text)
    lines = r["lines"]
    by_id = {d["id"]: d for d in ds}
    viol = []
    for (p, pred, gl, _) in r["viol"]:
        reset, ev = rv.locate(lines, gl)
        did = reset["id"]
        a = ev["att"]
        viol.append({"prop": p, "pred": pred, "driver": did, "i": ev.get("i"), "arena": 0, "op": a, "res": ev["res"],
                     "sig": "C09:%s@%s:%s" % (pred, a["variant"], "mismatch" if ev["res"]["k"] != "ok" else "accepted"),
                     "driver_obj": by_id[did]})
    drift = [{"what": w, "driver": rv.locate(lines, gl)[0]["id"], "i": gl, "op": None} for (gl, _, w) in r["drift"]]
    refused = sum(1 for l in lines if '"ev":"open"' in l and '"k":"err"' in l)
    coverage = {"states": mc["distinct"], "transitions": mc["generated"], "traces_validated_against_impl": len(ds),
                "samples": [ds[1], ds[len(ds) // 2]], "evaluations": len(ds), "distinct_nontrivial": refused,
                "rule": "MCFile: every abstract file class x open attempt (variants, capacity, expectations, create flags); real attempts on files "
                        "with each identification byte altered, truncated to boundary lengths, arbitrary contents, removed; non-trivial = attempts that were refused",
                "exhaustive": False}
    return coverage, viol, drift, t0
