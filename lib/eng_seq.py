"""Sequential engine: ArenaSeq model checking + driver generation + replay on the real arenas + trace validation.

Serves C01 C03 C04 C08 C10 C11 C13(single thread) C16 C17 C18 C20.
"""
import hashlib
import json
import os
import random
import shutil
import time
from concurrent.futures import ThreadPoolExecutor

import gen_seq
import mcgen
import rv
from rv import ToolError, log

# the repaired rewind behaviour is the reference once the fix: commit is in /repo (see known_findings.json)
FIXED_REWIND = os.environ.get("RV_FIXED_REWIND", "auto")


def fixed_rewind():
    """The implementation-level spec follows the code at HEAD: the rewind repairs (fix: 53f9483, 861db2e) are in.
    RV_FIXED_REWIND=0 re-creates the original behaviour in the model (used when demonstrating the finding)."""
    return FIXED_REWIND != "0"


AB = lambda n: {"k": "ab", "n": n, "o": False}
PREFIXES = {
    "empty": [],
    # one segment on the list, cursor 7 bytes below the end
    "oneseg": [AB(40), AB(40), AB(8), {"k": "drop", "h": 1}],
    # two segments of different sizes, arena full
    "twoseg": [AB(24), AB(8), AB(32), AB(8), AB(23), {"k": "drop", "h": 1}, {"k": "drop", "h": 3}],
}
LAYOUTS = {  # name -> (Unify, Reserved, backends that have this layout)
    "plain": (False, 0, ["vec", "anon"]),
    "unify": (True, 0, ["vec", "anon", "file"]),
    "plain_r5": (False, 5, ["vec", "anon"]),
}


def mc_plan(tier):
    """(name, params) of the MCSeq configurations: 'emit' ones yield drivers, 'verify' ones only check."""
    plan = []
    deep = 1 if tier == "thorough" else 0
    for layout, (unify, reserved, _) in LAYOUTS.items():
        if layout == "plain_r5" and not deep:
            continue
        for kind in ["opt", "pes", "none"]:
            base = dict(Kind=kind, Unify=unify, Reserved=reserved, Cap=96 + (31 if unify else 0) + reserved)
            for pname, pre in PREFIXES.items():
                if kind == "none" and pname != "empty":
                    continue
                # (with one step of history in the fingerprint the empty-prefix configuration is not deepened: 1.4 M states
                # and 2.5 M drivers per configuration at depth 5)
                d_emit = 4 if pname == "empty" else 3 + deep
                plan.append(("emit_%s_%s_%s" % (layout, kind, pname),
                             dict(base, Prefix=pre, MaxLen=d_emit, Emit=True, WithLeak=True, OwnedToo=(pname != "twoseg"),
                                  HistView=True), "emit", layout))
                d_ver = (5 if pname == "empty" else 4) + deep
                plan.append(("ver_%s_%s_%s" % (layout, kind, pname),
                             dict(base, Prefix=pre, MaxLen=d_ver, OwnedToo=(pname == "oneseg"), IncSet=[3],
                                  WithLeak=True), "verify", layout))
        # rewind / clear / truncate explored exhaustively in a smaller alphabet
        for kind in ["opt", "pes"]:
            base = dict(Kind=kind, Unify=unify, Reserved=reserved, Cap=96 + (31 if unify else 0) + reserved,
                        ByteSizes=[0, 16, 40], TypeSet=[(8, 8)], AlignedSet=[], MinSegSet=[8])
            rew = [("start", 0), ("start", 50), ("start", 200), ("end", 0), ("end", 30), ("end", 300),
                   ("cur", 0), ("cur", -8), ("cur", 16), ("cur", -500), ("cur", 500)]
            plan.append(("ctl_%s_%s" % (layout, kind),
                         dict(base, Prefix=PREFIXES["oneseg"], MaxLen=3 + deep, RewindSet=rew, TruncSet=[0, 64, 160],
                              WithClear=True, Backend="vec", Emit=True, FixedRewind=fixed_rewind()),
                         "emit_ctl", layout))
            # clear() of an arena whose cursor is (back) at the data offset but which is not pristine: discarded bytes, a free
            # list, stale bytes above the cursor (rewind to the start, everything released from the top, increase_discarded)
            plan.append(("ctl0_%s_%s" % (layout, kind),
                         dict(base, ByteSizes=[16, 40], Prefix=[], MaxLen=4 + deep, RewindSet=[("start", 0)], IncSet=[3],
                              WithClear=True, Backend="vec", Emit=True, HistView=True, FixedRewind=fixed_rewind()),
                         "emit_ctl", layout))
    # close + reopen as a call: every reachable (cursor, free list, discarded, minimum segment size) is closed and reopened
    for kind in ["opt", "pes"]:
        for pname in ["empty", "oneseg"]:
            plan.append(("reo_unify_%s_%s" % (kind, pname),
                         dict(Kind=kind, Unify=True, Reserved=0, Cap=127, Backend="file", ByteSizes=[0, 16, 40], TypeSet=[(8, 8)],
                              AlignedSet=[], MinSegSet=[8, 24], IncSet=[3], Prefix=PREFIXES[pname], MaxLen=4 + deep,
                              WithReopen=True, Emit=True), "emit_reo", "unify"))
    # exact fits: typed / aligned / owned handles at a misaligned cursor, neighbours, the arena filled up, releases, then
    # requests of exactly (and one less than) the size of each free segment
    for layout, base in [("plain", dict(Unify=False, Reserved=0, Cap=96)), ("unify", dict(Unify=True, Reserved=0, Cap=127))]:
        for kind in ["opt", "pes"]:
            plan.append(("fit_%s_%s" % (layout, kind),
                         dict(base, Kind=kind, ByteSizes=[8, 24], TypeSet=[(8, 8), (16, 16)], AlignedSet=[((8, 8), 16)], OwnedToo=True,
                              MinSegSet=[0], IncSet=[], Prefix=[AB(5)], MaxLen=5 + deep, MaxLive=4, WithFit=True, HistView=True, Emit=True),
                         "emit_fit", layout))
    # a second arena value alive across truncate (both layouts, Vec and file): made, asked, allocated through, dropped
    for layout, base in [("plain", dict(Unify=False, Reserved=0, Cap=96)), ("unify", dict(Unify=True, Reserved=0, Cap=127))]:
        for backend in ["vec", "file"]:
            if backend == "file" and layout == "plain":
                continue
            plan.append(("clone_%s_%s" % (layout, backend),
                         dict(base, Kind="none", Backend=backend, ByteSizes=[0, 16, 100], TypeSet=[], AlignedSet=[],
                              # (what the other value reports about the header fields changed in between: C16)
                              MinSegSet=[24], IncSet=[5], TruncSet=[64, 300], WithClone=True, MaxLen=4 + deep, Emit=True), "emit_clone", layout))
    return plan


def _mc_one(item):
    name, params, mode, layout, tier = item
    key = hashlib.sha256((rv.spec_hash() + json.dumps(params, sort_keys=True)).encode()).hexdigest()[:20]
    cdir = rv.ensure_dir(rv.MC_CACHE)
    cfile = os.path.join(cdir, "%s-%s.json" % (name, key))
    if os.path.exists(cfile):
        with open(cfile) as f:
            return json.load(f)
    wd = os.path.join(rv.WORK, "mc", name)
    shutil.rmtree(wd, ignore_errors=True)
    m, c, p = mcgen.write_mcseq(wd, "MC_" + name, **params)
    t0 = time.time()
    emit = params.get("Emit", False)
    rc, out = rv.run_tlc(wd, m, c, workers=1 if emit else 4, deque=False, timeout=3000, heap="6g")
    st = rv.tlc_stats(out)
    res = {"name": name, "mode": mode, "layout": layout, "params": {k: v for k, v in p.items() if k != "Prefix"},
           "prefix": p["Prefix"], "rc": rc, "wall": round(time.time() - t0, 1)}
    if st is None:
        res["error"] = out[-3000:]
    else:
        res.update(generated=st[0], distinct=st[1], depth=st[2])
    if rc != 0:
        # invariant / Assert violation or tool error: keep the tail for the report
        res["error"] = out[-6000:]
    if emit:
        res["drivers"] = rv.prefix_maximal(rv.parse_drv(out))
    mv = rv.parse_modelviol(out)
    # keep the shortest witness per violated predicate
    best = {}
    for preds, h in mv:
        for pp in preds:
            k = "%s:%s" % (pp[0], pp[1])
            if k not in best or len(h) < len(best[k]):
                best[k] = h
    res["modelviol"] = best
    res["modelviol_count"] = len(mv)
    shutil.rmtree(wd, ignore_errors=True)
    if st is None:
        raise ToolError("TLC did not finish configuration %s: %s" % (name, out[-1500:]))
    rv.dump_json_atomic(cfile, res)
    return res


def run_mc(tier):
    plan = [(n, p, m, l, tier) for (n, p, m, l) in mc_plan(tier)]
    t0 = time.time()
    with ThreadPoolExecutor(max_workers=6) as ex:
        results = list(ex.map(_mc_one, plan))
    log("MCSeq: %d configurations, %d distinct states total, %.1fs" % (
        len(results), sum(r.get("distinct", 0) for r in results), time.time() - t0))
    return results


# --------------------------------------------------------------------------- suites
_CFG_N = [0]


def cfg_for(layout, kind, backend, cap=None, minseg=8, flavors=("sync", "unsync"), compare="C11"):
    unify, reserved, _ = LAYOUTS[layout]
    if backend == "file":
        # Options::with_unify is documented as ignored for file-backed arenas (they always use the unified layout): every
        # other file-backed driver leaves the option at its default (false)
        _CFG_N[0] += 1
        unify = _CFG_N[0] % 2 == 0
    cap = cap if cap is not None else 96 + (31 if unify else 0) + reserved
    arenas = [[f, backend] for f in flavors]
    cfg = {"arenas": arenas, "cap": cap, "reserved": reserved, "kind": kind, "minseg": minseg,
           "unify": unify, "maxalign": 8, "magic": 0}
    if compare and len(arenas) == 2:
        cfg["compare"] = [[1, 2, compare, False]]
    return cfg


def suite_core(mc_results, tier, seed):
    """TLC edge-cover drivers (each on the configuration it was generated for, backends rotating) + random drivers."""
    rng = random.Random(seed)
    drivers = []
    budget_deep = 6000 if tier == "thorough" else 1200
    for r in mc_results:
        if r["mode"] != "emit" or "drivers" not in r:
            continue
        ds = r["drivers"]
        if len(ds) > budget_deep:
            # keep every driver of minimal length classes, sample the rest (seeded)
            ds = sorted(ds, key=len)
            keep = ds[:budget_deep // 3]
            rest = ds[budget_deep // 3:]
            rng.shuffle(rest)
            ds = keep + rest[:budget_deep - len(keep)]
        backends = LAYOUTS[r["layout"]][2]
        for i, ops in enumerate(ds):
            be = backends[i % len(backends)]
            drivers.append({"id": "mc:%s:%d" % (r["name"], i),
                            "cfg": cfg_for(r["layout"], r["params"]["Kind"], be, cap=r["params"]["Cap"],
                                           minseg=r["params"]["MinSeg0"]),
                            "ops": ops})
    n_rand = 600 if tier == "thorough" else 120
    for i in range(n_rand):
        be = rng.choice(["vec", "anon", "file"])
        g = rng.choice([gen_seq.random_driver, gen_seq.churn_driver])
        d = g(rng, "rnd:%d" % i, [["sync", be], ["unsync", be]])
        d["cfg"]["compare"] = [[1, 2, "C11", False]]
        drivers.append(d)
    return drivers


def suite_ctl(mc_results, tier, seed):
    """rewind / clear / truncate: TLC-generated drivers + boundary positions in many shapes + cleared-vs-fresh."""
    rng = random.Random(seed + 17)
    drivers = []
    for r in mc_results:
        if r["mode"] != "emit_ctl" or "drivers" not in r:
            continue
        ds = r["drivers"]
        lim = 4000 if tier == "thorough" else 900
        if len(ds) > lim:
            rng.shuffle(ds)
            ds = ds[:lim]
        backends = LAYOUTS[r["layout"]][2]
        for i, ops in enumerate(ds):
            be = backends[i % len(backends)]
            cfg = cfg_for(r["layout"], r["params"]["Kind"], be, cap=r["params"]["Cap"])
            if be == "file":
                # the arena mapped at an offset into its file (every other file-backed driver)
                cfg["offset"] = [0, 4096, 0, 192][(i // len(backends)) % 4]
            drivers.append({"id": "mc:%s:%d" % (r["name"], i), "cfg": cfg, "ops": ops})
    # boundary-dense positions: each position applied in a reachable shape, then two probing allocations
    shapes = [[], [AB(16)], [AB(40), AB(24)], [AB(40), AB(40), AB(8), {"k": "drop", "h": 1}, {"k": "discard"}]]
    n = 0
    for layout in ["plain", "unify"]:
        unify, reserved, backends = LAYOUTS[layout]
        for cap in ([100, 128] if tier == "quick" else [64, 100, 128, 1000]):
            doff = 32 if unify else 1
            for si, shape in enumerate(shapes):
                cur = doff + sum(o.get("n", 0) for o in shape if o["k"] == "ab")
                for (p, v) in gen_seq.positions(cap, doff, min(cur, cap)):
                    be = backends[n % len(backends)]
                    ops = list(shape) + [gen_seq.rewind_op(p, v), AB(8), {"k": "at", "s": 8, "a": 8, "o": False}]
                    drivers.append({"id": "pos:%s:%d:%d:%s:%s" % (layout, cap, si, p, v),
                                    "cfg": cfg_for(layout, "opt", be, cap=cap), "ops": ops})
                    n += 1
    # clear: arena 1 gets a history and clear(); arena 2 is fresh with the same minimum segment size;
    # afterwards both get the same random history and must be indistinguishable (bytes included)
    for i in range(60 if tier == "quick" else 400):
        be = rng.choice(["vec", "anon", "file"])
        flavor = rng.choice(["sync", "unsync"])
        pre = gen_seq.random_driver(rng, "x", [[flavor, be], [flavor, be]], length=rng.randint(3, 25))
        cfg = pre["cfg"]
        cfg["compare"] = [[1, 2, "C17", True]]
        ops = [dict(o, only=[1]) for o in pre["ops"]]
        ops.append({"k": "clear", "only": [1]})
        ms = None
        for o in pre["ops"]:
            if o["k"] == "setmin":
                ms = o["v"]
        if ms is not None:
            ops.append({"k": "setmin", "v": ms, "only": [2]})
        post = gen_seq.churn_driver(rng, "y", [], rounds=4)["ops"]
        ops += post
        drivers.append({"id": "clear:%d" % i, "cfg": cfg, "ops": ops})
    # truncate in many shapes (unsync), then allocations that fit / do not fit the new capacity
    for i in range(80 if tier == "quick" else 500):
        be = rng.choice(["vec", "anon", "file"])
        pre = gen_seq.churn_driver(rng, "t", [["unsync", be]], rounds=rng.randint(1, 3))
        cfg = pre["cfg"]
        if be == "file":
            cfg["offset"] = [0, 4096, 192][i % 3]
        cap = cfg["cap"]
        nn = rng.choice([0, 1, cap // 2, cap - 1, cap, cap + 1, 2 * cap, 4 * cap, rng.randint(0, 4 * cap)])
        ops = pre["ops"] + [{"k": "truncate", "v": nn}]
        for _ in range(4):
            ops.append(gen_seq.rand_alloc(rng, max(8, nn)))
        ops.append({"k": "truncate", "v": rng.randint(0, 2 * cap)})
        ops.append(AB(rng.choice([1, 8, 64])))
        drivers.append({"id": "trunc:%d" % i, "cfg": cfg, "ops": ops})
    # capacities that cross page boundaries: grow inside the mapped page(s), allocate beyond the original length, grow beyond
    # the pages, shrink back (the anonymous map keeps whole pages; Vec and file do not)
    for i, be in enumerate(["anon", "vec", "file", "anon", "file", "vec"]):
        cfg = cfg_for("unify" if (be == "file" or i % 2) else "plain", "opt", be, cap=1024, flavors=("unsync",))
        ops = [AB(600), {"k": "truncate", "v": 4000}, AB(2500), {"k": "truncate", "v": 2 * 4096 + 100}, AB(4000),
               {"k": "drop", "h": 2}, {"k": "truncate", "v": 4097}, {"k": "truncate", "v": 3 * 4096}, AB(3000), {"k": "truncate", "v": 0}, AB(8)]
        drivers.append({"id": "trunc-pages:%d" % i, "cfg": cfg, "ops": ops})
    # the configured maximum alignment survives truncate (the new buffer / mapping is as aligned as the old one)
    for i, (be, v) in enumerate([(be, v) for be in ["vec", "anon", "file"] for v in [0, 300, 700, 1500, 5000]]):
        cfg = cfg_for("unify" if be == "file" else "plain", "opt", be, cap=600, flavors=("unsync",))
        cfg["maxalign"] = 64
        ops = [AB(3), {"k": "at", "s": 64, "a": 64, "o": False}, {"k": "truncate", "v": v},
               {"k": "at", "s": 64, "a": 64, "o": False}, {"k": "aa", "s": 16, "a": 16, "n": 5, "o": False}]
        drivers.append({"id": "trunc-align:%d" % i, "cfg": cfg, "ops": ops})
    return drivers


def suite_layout(tier, seed):
    """C16: reserved prefixes, capacities around the prefix size, three backends side by side (unified layout)."""
    rng = random.Random(seed + 5)
    drivers = []
    reserved_vals = list(range(0, 18)) + [63, 64, 65, 4095, 4096]
    if tier == "thorough":
        reserved_vals += [rng.randint(18, 4096) for _ in range(40)]
    for flavor in ["sync", "unsync"]:
        for res in reserved_vals:
            for unify in [False, True]:
                prefix = (((res + 7) // 8) * 8 + 32) if unify else res + 1
                for cap in sorted({max(1, prefix - 1), prefix, prefix + 1, prefix + 40}):
                    arenas = [[flavor, "vec"], [flavor, "anon"], [flavor, "file"]]
                    cfg = {"arenas": arenas, "cap": cap, "reserved": res, "kind": "opt", "minseg": 8, "unify": unify,
                           "maxalign": 8, "magic": rng.choice([0, 3])}
                    if unify:
                        cfg["compare"] = [[1, 2, "C16", True], [1, 3, "C16", True]]
                    ops = [{"k": "at", "s": 8, "a": 8, "o": False}, AB(5), AB(16), {"k": "drop", "h": 2}, AB(3)]
                    drivers.append({"id": "lay:%s:%d:%s:%d" % (flavor, res, unify, cap), "cfg": cfg, "ops": ops})
    # cross-backend byte equality under longer histories
    for i in range(40 if tier == "quick" else 300):
        flavor = rng.choice(["sync", "unsync"])
        d = rng.choice([gen_seq.random_driver, gen_seq.churn_driver])(
            rng, "layh:%d" % i, [[flavor, "vec"], [flavor, "anon"], [flavor, "file"]], unify=True)
        d["cfg"]["compare"] = [[1, 2, "C16", True], [1, 3, "C16", True]]
        drivers.append(d)
    return drivers


def suite_shape(tier, seed):
    """C03: cursor at every residue mod 16, free-list segments at every 8-residue, all types of the menu."""
    rng = random.Random(seed + 9)
    drivers = []
    kinds = ["opt", "pes"]
    for layout in ["plain", "unify"]:
        backends = LAYOUTS[layout][2]
        n = 0
        for r in range(16):
            for (s, a) in gen_seq.TYPES:
                be = backends[n % len(backends)]
                n += 1
                # fresh space at residue r
                ops = [AB(r)] if r else []
                ops += [{"k": "at", "s": s, "a": a, "o": False}, {"k": "aa", "s": s, "a": a, "n": rng.choice([0, 1, 7]), "o": False}]
                cfg = cfg_for(layout, kinds[n % 2], be, cap=400)
                cfg["maxalign"] = rng.choice([8, 16])
                drivers.append({"id": "res:%s:%d:%d:%d" % (layout, r, s, a), "cfg": cfg, "ops": ops})
                # recycled space: a segment whose node sits at residue 8*(r%2), arena otherwise full
                cap = 200 + (31 if layout == "unify" else 0)
                fill = cap - (32 if layout == "unify" else 1)
                first = 8 * (1 + r % 4) + r % 8
                ops = [AB(first), AB(96), AB(fill - first - 96 - 1), {"k": "drop", "h": 2},
                       {"k": "at", "s": s, "a": a, "o": False}, {"k": "aa", "s": s, "a": a, "n": r % 5, "o": False},
                       AB(0), {"k": "at", "s": 0, "a": 1, "o": False}]
                cfg = cfg_for(layout, kinds[n % 2], be, cap=cap)
                cfg["maxalign"] = 16
                drivers.append({"id": "rec:%s:%d:%d:%d" % (layout, r, s, a), "cfg": cfg, "ops": ops})
        # "requests of size zero succeed on any writable arena, even a full one, without consuming space": every zero-sized
        # type of the menu (alignment 1, 2, 8, 16) through every call, at every cursor residue, on arenas that are completely
        # full and whose end is / is not a multiple of the alignment
        doff = 32 if layout == "unify" else 1
        for cap in [doff + 96, doff + 101]:
            for r in range(0, 17):
                for zi, a in enumerate([1, 2, 8, 16]):
                    for owned in [False, True]:
                        zops = [{"k": "at", "s": 0, "a": a, "o": owned}, {"k": "aa", "s": 0, "a": a, "n": 0, "o": owned},
                                {"k": "ab", "n": 0, "o": owned}]
                        be = backends[(r + zi) % len(backends)]
                        cfg = cfg_for(layout, ["opt", "pes", "none"][(r + zi) % 3], be, cap=cap)
                        cfg["maxalign"] = 16
                        # at residue r with room left, then on the full arena
                        ops = ([AB(r)] if r else []) + zops + [AB(cap - doff - r)] + zops + [AB(1)]
                        drivers.append({"id": "zst:%s:%d:%d:%d:%d" % (layout, cap, r, a, owned), "cfg": cfg, "ops": ops})
    return drivers


def suite_sizes(tier, seed):
    """C04: boundary-dense request sizes in reachable arena shapes."""
    rng = random.Random(seed + 3)
    drivers = []
    u32 = (1 << 32) - 1
    shapes = [[], [AB(16)], [AB(40), AB(40), AB(8), {"k": "drop", "h": 1}],
              [AB(24), AB(8), AB(32), AB(8), AB(23), {"k": "drop", "h": 1}, {"k": "drop", "h": 3}]]
    n = 0
    for layout in ["plain", "unify"]:
        backends = LAYOUTS[layout][2]
        for kind in ["opt", "pes", "none"]:
            for si, shape in enumerate(shapes):
                cap = 96 + (31 if layout == "unify" else 0)
                doff = 32 if layout == "unify" else 1
                cur = doff + sum(o.get("n", 0) for o in shape if o["k"] == "ab")
                rem = cap - cur
                anchors = sorted({0, 1, rem - 1, rem, rem + 1, cap - 1, cap, cap + 1, 24, 25, 32, 33,
                                  (1 << 31) - 1, 1 << 31, (1 << 31) + 1, u32 - cur - 1, u32 - cur, u32 - cur + 1,
                                  u32 - 16, u32 - 8, u32 - 7, u32 - 1, u32} - {-1})
                anchors = [x for x in anchors if 0 <= x <= u32]
                for sz in anchors:
                    sz_ops = []
                    for (k, s, a) in [("ab", 0, 1), ("aa", 8, 8), ("aa", 16, 16), ("aa", 1, 1), ("aa", 3, 1), ("aa", 0, 8)]:
                        be = backends[n % len(backends)]
                        n += 1
                        # the *_owned entry points have their own wrappers: both for the sizes around 2^31 / 2^32, else alternating
                        for owned in ([False, True] if sz >= (1 << 31) - 1 else [(n + si) % 2 == 0]):
                            op = {"k": k, "n": sz, "o": owned} if k == "ab" else {"k": k, "s": s, "a": a, "n": sz, "o": owned}
                            sz_ops.append(op)
                    for oi, op in enumerate(sz_ops):
                        k, s = op["k"], op.get("s", 0)
                        n += 1
                        be = backends[n % len(backends)]
                        ops = list(shape) + [op, AB(8), {"k": "at", "s": 8, "a": 8, "o": False}]
                        cfg = cfg_for(layout, kind, be, cap=cap)
                        # the retry budget of the slow path (Options::with_maximum_retries, any u8): a failing request is
                        # retried that many times and must then report the same clean error
                        cfg["retries"] = [5, 0, 1, 255][n % 4]
                        drivers.append({"id": "sz:%s:%s:%d:%s:%d:%d:%d" % (layout, kind, si, k, s, sz, oi), "cfg": cfg, "ops": ops})
    # the last bytes of the arena: the cursor k bytes below capacities that are and are not multiples of the alignment, then a
    # request whose padding decides whether it still fits
    for layout in ["plain", "unify"]:
        backends = LAYOUTS[layout][2]
        doff = 32 if layout == "unify" else 1
        for cap in ([96, 99] if layout == "plain" else [127, 128]):
            for k in range(0, 26):
                for j, op in enumerate([{"k": "at", "s": 8, "a": 8, "o": False}, {"k": "at", "s": 16, "a": 16, "o": False},
                                        {"k": "at", "s": 4, "a": 4, "o": False}, {"k": "at", "s": 24, "a": 8, "o": False},
                                        {"k": "aa", "s": 8, "a": 8, "n": 0, "o": False}, {"k": "aa", "s": 8, "a": 8, "n": 5, "o": False},
                                        {"k": "ab", "n": max(k, 1), "o": False}, {"k": "ab", "n": k + 1, "o": False}]):
                    kind = ["opt", "pes", "none"][(k + j) % 3]
                    cfg = cfg_for(layout, kind, backends[(k + j) % len(backends)], cap=cap)
                    cfg["maxalign"] = 16
                    ops = [AB(cap - doff - k), op, AB(1)] if cap - doff - k > 0 else [op]
                    drivers.append({"id": "end:%s:%d:%d:%d" % (layout, cap, k, j), "cfg": cfg, "ops": ops})
    return drivers


def suite_reopen(tier, seed, mc_results=()):
    """C05 / C09: file-backed arenas closed and reopened (map_mut, map_copy, map, map_copy_read_only) between histories."""
    rng = random.Random(seed + 21)
    drivers = []
    # TLC edge cover of the model with reopen in the menu: each driver additionally reopened with every variant at the end
    for r in mc_results:
        if r["mode"] != "emit_reo" or "drivers" not in r:
            continue
        ds = r["drivers"]
        lim = 3000 if tier == "thorough" else 700
        if len(ds) > lim:
            ds = sorted(ds, key=len)[:lim // 2] + rng.sample(ds, lim // 2)
        for i, ops in enumerate(ds):
            tail = [{"k": "reopen", "variant": ["map_copy", "map", "map_copy_ro", "map_mut"][i % 4], "cap": 0, "flush": False, "create": False},
                    {"k": "reopen", "variant": "map_mut", "cap": 0, "flush": False, "create": False}, AB(8)]
            cfg = cfg_for(r["layout"], r["params"]["Kind"], "file", cap=r["params"]["Cap"], minseg=r["params"]["MinSeg0"])
            drivers.append({"id": "mc:%s:%d" % (r["name"], i), "cfg": cfg, "ops": list(ops) + tail})
    n = 160 if tier == "quick" else 1500
    for i in range(n):
        flavors = [["sync", "file"], ["unsync", "file"]]
        pre = gen_seq.random_driver(rng, "x", flavors, length=rng.randint(4, 30))
        cfg = pre["cfg"]
        cfg["compare"] = [[1, 2, "C11", False]]
        # the arena may live at an offset into its file (page aligned or not): the file is judged from that offset on
        # (a multiple of the largest alignment in the type menu: an offset that is not misaligns typed allocations, DESIGN section 12)
        cfg["offset"] = [0, 0, 4096, 192][i % 4]
        # ... and may be created / reopened through the *_with_path_builder constructors
        cfg["pb"] = i % 3 == 1
        cap = cfg["cap"]
        ops = [o for o in pre["ops"]]
        cycles = rng.randint(1, 3)
        for c in range(cycles):
            if rng.random() < 0.3:
                ops.append({"k": "flush"})
            variant = rng.choice(["map_mut", "map_mut", "map_copy", "map", "map_copy_ro"])
            capv = rng.choice([0, cap, cap, cap + rng.choice([1, 8, 100])])
            if capv > cap and variant in ("map_mut", "map_copy"):
                cap = capv  # both writable variants grow the file to the requested capacity
            ops.append({"k": "reopen", "variant": variant, "cap": capv, "flush": rng.random() < 0.5,
                        "create": variant == "map_mut" and rng.random() < 0.3})
            if variant in ("map", "map_copy_ro"):
                # mutators of the safe API on a read-only arena (expected: ReadOnly error / documented panic)
                for _ in range(rng.randint(1, 4)):
                    ops.append(rng.choice([gen_seq.rand_alloc(rng, cap), {"k": "discard"},
                                           {"k": "ab", "n": 0, "o": False}]))
                ops.append({"k": "reopen", "variant": "map_mut", "cap": 0, "flush": False, "create": False})
            post = gen_seq.churn_driver(rng, "y", [], rounds=rng.randint(1, 3))["ops"]
            ops += post
        drivers.append({"id": "reopen:%d" % i, "cfg": cfg, "ops": ops})
    # a capacity on reopen that is smaller than the file (but not below the stored cursor): outside what C05 quantifies over
    # ("same, larger, absent"), so the file length is not judged there -- the implementation-level model still says what the
    # later sessions must see (the mapping covers the requested bytes, the file keeps its length)
    for kind in ["opt", "pes", "none"]:
        for (v1, v2) in [("map_mut", "map_copy"), ("map_copy", "map_mut"), ("map_mut", "map"), ("map_mut", "map_mut")]:
            for off in [0, 4096]:
                cfg = {"arenas": [["sync", "file"], ["unsync", "file"]], "cap": 1024, "reserved": [0, 5][off == 0], "kind": kind, "minseg": 8,
                       "unify": True, "maxalign": 8, "magic": 2, "offset": off, "compare": [[1, 2, "C11", False]]}
                ops = [AB(40), AB(24), AB(16), {"k": "drop", "h": 2},
                       {"k": "reopen", "variant": v1, "cap": 512, "flush": False, "create": False}, AB(16), AB(300),
                       {"k": "reopen", "variant": v2, "cap": 640, "flush": True, "create": False}, AB(8),
                       {"k": "reopen", "variant": "map_mut", "cap": 0, "flush": False, "create": False}, AB(24), AB(700),
                       {"k": "reopen", "variant": "map", "cap": 0, "flush": False, "create": False},
                       {"k": "reopen", "variant": "map_mut", "cap": 0, "flush": False, "create": False}, AB(8)]
                drivers.append({"id": "reopen:smaller:%s:%s:%s:%d" % (kind, v1, v2, off), "cfg": cfg, "ops": ops})
    return drivers


def suite_ro_mutators(tier, seed):
    """C09: the header-writing mutators of the safe API on read-only mappings (each in its own driver: may crash)."""
    rng = random.Random(seed + 23)
    drivers = []
    for flavor in ["sync", "unsync"]:
        for variant in ["map", "map_copy_ro"]:
            for mut in [{"k": "setmin", "v": 16}, {"k": "incdisc", "v": 3}, {"k": "clear"}, {"k": "truncate", "v": 300},
                        {"k": "ab", "n": 8, "o": False}, {"k": "at", "s": 8, "a": 8, "o": False},
                        {"k": "aa", "s": 8, "a": 8, "n": 4, "o": False}, {"k": "discard"}, {"k": "ab", "n": 8, "o": True},
                        # (not of the safe API, so no concern of C09: the documented panics of the unsafe mutable accessors,
                        # compared by the implementation-level model only)
                        {"k": "rawmut", "w": "bytes", "off": 48, "n": 8}, {"k": "rawmut", "w": "ptr", "off": 48},
                        {"k": "rawmut", "w": "aligned", "off": 48}]:
                for shape in [[AB(16)], [AB(40), AB(24), {"k": "drop", "h": 1}]]:
                    # every free-list kind (the read-only guards sit next to per-kind dispatch) x with / without a prefix
                    for kind in ["none", "opt", "pes"]:
                        for reserved in [0, 5]:
                            cfg = {"arenas": [[flavor, "file"]], "cap": 200, "reserved": reserved, "kind": kind,
                                   "minseg": 8, "unify": True, "maxalign": 8, "magic": 3}
                            ops = list(shape) + [{"k": "reopen", "variant": variant, "cap": 0, "flush": False, "create": False}, mut,
                                                 {"k": "reopen", "variant": "map_mut", "cap": 0, "flush": False, "create": False}, AB(8)]
                            drivers.append({"id": "ro:%s:%s:%s:%d:%s:%d" % (flavor, variant, mut["k"], len(shape), kind, reserved),
                                            "cfg": cfg, "ops": ops})
    return drivers


def suite_fit(mc_results, tier, seed):
    """Exact-fit reuse: TLC histories in which a handle is released and a later request is sized after a free segment."""
    rng = random.Random(seed + 29)
    drivers = []
    for r in mc_results:
        if r["mode"] != "emit_fit" or "drivers" not in r:
            continue
        cand = [d for d in r["drivers"] if any(o["k"] in ("drop", "dealloc") for o in d[:-1]) and d[-1]["k"] in ("ab", "at", "aa")]
        fixed = set(r["params"]["ByteSizes"]) | {o["n"] for o in r["prefix"] if o["k"] == "ab"}
        # every history that ends with a state-dependent request (a segment's size, one less, or all fresh space) after a
        # release; a seeded sample of the others
        ds = [d for d in cand if d[-1]["k"] == "ab" and d[-1]["n"] not in fixed]
        if len(ds) > 40000:
            ds = rng.sample(ds, 40000)
        rest = [d for d in cand if not (d[-1]["k"] == "ab" and d[-1]["n"] not in fixed)]
        ds += rng.sample(rest, min(len(rest), 3000 if tier == "thorough" else 400))
        backends = LAYOUTS[r["layout"]][2]
        for i, ops in enumerate(ds):
            cfg = cfg_for(r["layout"], r["params"]["Kind"], backends[i % len(backends)], cap=r["params"]["Cap"])
            cfg["maxalign"] = 16
            drivers.append({"id": "mc:%s:%d" % (r["name"], i), "cfg": cfg, "ops": ops})
    return drivers


def suite_minseg(tier, seed):
    """Extreme minimum segment sizes ("never recycle": u32::MAX and just below; and 0 / 1), set in the options or at run time,
    before and after segments exist: releases that are not on top, slow-path requests that would split, discard_freelist."""
    drivers = []
    U = (1 << 32) - 1
    n = 0
    for layout in ["plain", "unify"]:
        backends = LAYOUTS[layout][2]
        for kind in ["opt", "pes"]:
            for mv in [U, U - 7, U - 13, U - 14, 1 << 31, 0, 1]:
                for when in ["option", "before", "after"]:
                    n += 1
                    cfg = cfg_for(layout, kind, backends[n % len(backends)], cap=160 + (31 if layout == "unify" else 0))
                    setop = {"k": "setmin", "v": min(mv, 1 << 30)}
                    if mv > (1 << 30):
                        setop["vx"] = str(mv)
                    if when == "option" and mv <= (1 << 30):
                        cfg["minseg"] = mv
                    pre = [] if when != "before" else [setop]
                    mid = [] if when != "after" else [setop]
                    ops = pre + [AB(40), AB(9), AB(48), AB(8), AB(30)] + [{"k": "drop", "h": 1}] + mid + [{"k": "drop", "h": 3}] + \
                          ([setop] if when == "option" and mv > (1 << 30) else []) + \
                          [AB(16), {"k": "at", "s": 8, "a": 8, "o": False}, {"k": "drop", "h": 2}, {"k": "discard"}, AB(24), AB(8)]
                    drivers.append({"id": "minseg:%s:%s:%d:%s" % (layout, kind, mv, when), "cfg": cfg, "ops": ops})
    return drivers


def suite_clone(mc_results, tier, seed):
    """A second arena value (Clone) alive across truncate / clear / allocations: every history of the model with the clone
    calls in the menu (made, asked for capacity()/remaining()/allocated(), allocated through, dropped)."""
    drivers = []
    for r in mc_results:
        if r["mode"] != "emit_clone" or "drivers" not in r:
            continue
        backends = ["file"] if r["params"]["Backend"] == "file" else ["vec", "anon"]
        for i, ops in enumerate(r["drivers"]):
            be = backends[i % len(backends)]
            cfg = cfg_for(r["layout"], r["params"]["Kind"], be, cap=r["params"]["Cap"])
            cfg["magic"] = [0, 7, 513][i % 3]     # (what a clone reports must not depend on the default being 0)
            drivers.append({"id": "mc:%s:%d" % (r["name"], i), "cfg": cfg, "ops": ops})
    return drivers


SUITES = {
    "minseg": lambda mc, tier, seed: suite_minseg(tier, seed),
    "fit": lambda mc, tier, seed: suite_fit(mc, tier, seed),
    "clone": lambda mc, tier, seed: suite_clone(mc, tier, seed),
    "reopen": lambda mc, tier, seed: suite_reopen(tier, seed, mc),
    "ro": lambda mc, tier, seed: suite_ro_mutators(tier, seed),
    "core": lambda mc, tier, seed: suite_core(mc, tier, seed),
    "ctl": lambda mc, tier, seed: suite_ctl(mc, tier, seed),
    "layout": lambda mc, tier, seed: suite_layout(tier, seed),
    "shape": lambda mc, tier, seed: suite_shape(tier, seed),
    "sizes": lambda mc, tier, seed: suite_sizes(tier, seed),
}


def sat_ops(ops):
    """TLC cannot hold numbers >= 2^31: saturate request sizes at 2^30 in the *logged* op (cap < 2^30, so every such
    size is equivalent at the property level: it cannot fit); the exact value travels in 'nx' and is what is executed."""
    out = []
    for o in ops:
        if "n" in o and o["n"] > rv_SAT:
            o = dict(o, nx=str(o["n"]), n=rv_SAT)
        out.append(o)
    return out


rv_SAT = 1 << 30


def run_suite(name, tier, seed, mc_results, profile="dev"):
    """Replay the suite on the real code and validate the trace with both trace specs. Cached per source hash."""
    key = hashlib.sha256(("%s|%s|%s|%s|%s|%s|%s" % (rv.repo_hash(), rv.verif_hash(), name, tier, seed, profile,
                                                      fixed_rewind())).encode()).hexdigest()[:24]
    cdir = rv.ensure_dir(os.path.join(rv.WORK, "suite_cache"))
    cfile = os.path.join(cdir, "%s-%s.json" % (name, key))
    if os.path.exists(cfile):
        with open(cfile) as f:
            log("suite %s: cached result" % name)
            return json.load(f)
    binary = rv.build_harness(profile)
    drivers = SUITES[name](mc_results, tier, seed)
    for d in drivers:
        d["ops"] = sat_ops(d["ops"])
    wd = rv.ensure_dir(os.path.join(rv.WORK, "suite", "%s-%s" % (name, profile)))
    dfile = os.path.join(wd, "drivers.ndjson")
    tfile = os.path.join(wd, "trace.ndjson")
    rv.write_ndjson(dfile, drivers)
    t0 = time.time()
    trace_lines, crashes = run_seq_harness(binary, dfile, tfile, os.path.join(wd, "files"))
    t_h = time.time() - t0
    t0 = time.time()
    prop = rv.validate_trace(tfile, "TraceSeqProp.tla", "TraceSeqProp.cfg", "%s-%s-prop" % (name, profile))
    impl = rv.validate_trace(tfile, "TraceSeqImpl.tla", "TraceSeqImpl.cfg", "%s-%s-impl" % (name, profile),
                             constants_env=None)
    t_v = time.time() - t0
    by_id = {d["id"]: d for d in drivers}
    lines = prop["lines"]

    def where(gline):
        reset, ev = rv.locate(lines, gline)
        return reset["id"] if reset else None, ev

    def pre_alloc(gline, arena):
        j = gline - 2
        while j >= 0:
            e = json.loads(lines[j])
            if e["ev"] in ("op", "reset"):
                ar = e["arenas"]
                if arena - 1 < len(ar) and "obs" in ar[arena - 1]:
                    return ar[arena - 1]["obs"]["alloc"]
                if e["ev"] == "reset":
                    return None
            j -= 1
        return None

    viol = []
    for (p, pred, gline, arena) in prop["viol"]:
        did, ev = where(gline)
        viol.append({"prop": p, "pred": pred, "driver": did, "i": ev.get("i", 0), "arena": arena, "profile": profile,
                     "op": ev.get("op"), "pre_alloc": pre_alloc(gline, arena) if ev.get("ev") == "op" else None,
                     "res": (ev.get("arenas") or [{}] * arena)[arena - 1].get("res") if ev.get("ev") == "op" else None})
    def died_prop(c):
        # the property that speaks about the call during which the process died (signal, abort, or CPU limit = never returned)
        if str(c["id"]).startswith(("ro:", "reopen:", "open:")):
            return "C09"
        k = (c.get("op") or {}).get("k", "")
        return {"drop": "C13", "dealloc": "C13", "leak": "C13", "detach": "C13", "mkclone": "C13", "dropclone": "C13",
                "rewind": "C17", "clear": "C17", "truncate": "C18", "cobs": "C18",
                "discard": "C20", "incdisc": "C20", "setmin": "C20", "reopen": "C05", "flush": "C05"}.get(k, "C04")

    for c in crashes:
        viol.append({"prop": died_prop(c), "pred": "ProcessDied", "driver": c["id"], "i": c["i"], "arena": 0, "op": c["op"],
                     "profile": profile, "pre_alloc": None, "res": {"k": "signal", "sig": c["sig"]}})
    drift = []
    for (gline, arena, what) in impl["drift"]:
        did, ev = where(gline)
        drift.append({"what": what, "driver": did, "i": ev.get("i", 0), "arena": arena, "op": ev.get("op")})
    stats = trace_stats(lines)
    res = {"suite": name, "tier": tier, "seed": seed, "profile": profile, "drivers": len(drivers),
           "events": prop["events"], "viol": viol, "drift": drift, "stats": stats,
           "t_harness": round(t_h, 1), "t_validate": round(t_v, 1),
           "samples": [drivers[0], drivers[len(drivers) // 2]],
           "viol_drivers": {v["driver"]: by_id.get(v["driver"]) for v in viol[:50]}}
    log("suite %s (%s): %d drivers, %d events, %d VIOL, %d DRIFT, harness %.1fs, validation %.1fs" % (
        name, profile, len(drivers), prop["events"], len(viol), len(drift), t_h, t_v))
    rv.dump_json_atomic(cfile, res)
    return res


def run_seq_harness(binary, dfile, tfile, filesdir, flush=False):
    """Run the seq driver; if the process dies (signal), record it and continue with the remaining drivers."""
    crashes = []
    rv.ensure_dir(filesdir)
    with open(dfile) as f:
        pending = f.readlines()
    out_all = []
    part = 0
    while pending:
        pfile = dfile + ".part%d" % part
        ofile = tfile + ".part%d" % part
        with open(pfile, "w") as f:
            f.writelines(pending)
        args = [pfile, ofile, filesdir] + (["--flush"] if flush else [])
        # a call that never returns costs its whole CPU allowance: generous for the first one (a healthy batch needs well
        # under a minute of CPU), shorter once one has been seen, and after eight of them the rest of the suite is not
        # run (the verdict is settled; the drivers not run are counted in the log)
        hangs = sum(1 for c in crashes if c["sig"] in (24, 998))
        if hangs >= 8:
            log("seq harness: %d calls never returned; %d drivers of this suite not run" % (hangs, len(pending)))
            break
        limit = int(os.environ.get("RV_CPU_LIMIT", "300")) if hangs == 0 else 60
        rc, out, _ = rv.run_harness(binary, "seq", args, timeout=3600, allow_fail=True, cpu_limit=limit)
        with open(ofile) as f:
            got = f.readlines()
        if rc == 0:
            out_all += got
            break
        if not flush:
            # re-run this batch with per-op flushing so that the crash is attributable
            flush = True
            continue
        # find the driver that was running: count reset events
        resets = [i for i, l in enumerate(got) if '"ev":"reset"' in l]
        if not resets:
            raise ToolError("seq harness died before the first driver (rc=%s): %s" % (rc, out[-500:]))
        k = len(resets) - 1
        last_begin = None
        for l in got[resets[-1]:]:
            if '"ev":"begin"' in l:
                last_begin = json.loads(l)
        d = json.loads(pending[k])
        crashes.append({"id": d["id"], "i": last_begin["i"] if last_begin else 0,
                        "op": last_begin["op"] if last_begin else None, "sig": -rc if rc < 0 else rc})
        # keep complete lines only, drop the partial driver's tail after the crash
        got = [l for l in got if l.endswith("\n")]
        out_all += got
        pending = pending[k + 1:]
        part += 1
    with open(tfile, "w") as f:
        f.writelines(out_all)
    for p in os.listdir(os.path.dirname(tfile)):
        if ".part" in p:
            os.remove(os.path.join(os.path.dirname(tfile), p))
    shutil.rmtree(filesdir, ignore_errors=True)
    return len(out_all), crashes


def trace_stats(lines):
    """Non-triviality counters measured on the trace (per driver: which interesting things happened)."""
    st = {"drivers": 0, "slow_bytes": 0, "slow_typed": 0, "err": 0, "split": 0, "became_segment": 0, "too_small": 0,
          "top_release": 0, "rewind": 0, "clear": 0, "truncate": 0, "zero_sized": 0, "owned": 0, "panic": 0,
          "drivers_with_reuse": 0, "drivers_with_error": 0}
    reuse = err = False
    prev = None
    for l in lines:
        e = json.loads(l)
        if e["ev"] == "reset":
            st["drivers"] += 1
            st["drivers_with_reuse"] += reuse
            st["drivers_with_error"] += err
            reuse = err = False
            a = e["arenas"][0]
            prev = a.get("obs")
            continue
        if e["ev"] != "op":
            continue
        a = None
        for x in e["arenas"]:
            if "obs" in x:
                a = x
                break
        if a is None:
            for x in e["arenas"]:
                if x["res"]["k"] == "panic":
                    st["panic"] += 1
                    break
            continue
        k = e["op"]["k"]
        r = a["res"]
        if k in ("ab", "at", "aa"):
            if r["k"] == "ok":
                if r["ps"] == 0:
                    st["zero_sized"] += 1
                elif prev and min(r["mo"], r["po"]) < prev["alloc"]:
                    reuse = True
                    st["slow_bytes" if k == "ab" else "slow_typed"] += 1
                    if len(a["obs"]["fl"]) >= len(prev["fl"]):
                        st["split"] += 1
                if r.get("owned"):
                    st["owned"] += 1
            elif r["k"].startswith("err"):
                st["err"] += 1
                err = True
        elif k in ("drop", "dealloc") and r["k"] == "ok" and prev:
            if len(a["obs"]["fl"]) > len(prev["fl"]):
                st["became_segment"] += 1
            elif a["obs"]["alloc"] < prev["alloc"]:
                st["top_release"] += 1
            elif a["obs"]["disc"] > prev["disc"]:
                st["too_small"] += 1
        elif k in ("rewind", "clear", "truncate"):
            st[k] += 1
        elif k == "reopen":
            st["reopen"] = st.get("reopen", 0) + 1
        prev = a["obs"]
    st["drivers_with_reuse"] += reuse
    st["drivers_with_error"] += err
    return st
