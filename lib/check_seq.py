"""Checks decided by the sequential engine (ArenaSeq + TraceSeqProp/TraceSeqImpl)."""
import json
import os
import time

import eng_seq
import rv
import verdict
from rv import ToolError, log

# property -> [(suite, profile)]
PLAN = {
    "C01": [("core", "dev"), ("ctl", "dev"), ("shape", "dev"), ("fit", "dev")],
    "C03": [("shape", "dev"), ("core", "dev"), ("fit", "dev"), ("ctl", "dev")],
    "C04": [("sizes", "dev"), ("sizes", "release"), ("core", "dev"), ("ro", "dev")],
    "C05": [("reopen", "dev")],
    "C08": [("core", "dev"), ("ctl", "dev"), ("reopen", "dev")],
    "C09": [("ro", "dev"), ("reopen", "dev")],
    "C10": [("core", "dev"), ("shape", "dev"), ("fit", "dev"), ("minseg", "dev"), ("minseg", "release")],
    "C11": [("core", "dev"), ("ctl", "dev"), ("sizes", "dev")],
    "C16": [("layout", "dev"), ("core", "dev"), ("reopen", "dev"), ("ctl", "dev"), ("clone", "dev")],
    "C17": [("ctl", "dev"), ("ctl", "release")],
    "C18": [("ctl", "dev"), ("ro", "dev"), ("clone", "dev")],
    "C20": [("core", "dev"), ("ctl", "dev"), ("ro", "dev"), ("fit", "dev"), ("minseg", "dev"), ("minseg", "release")],
}

# C04 says "either returns a handle satisfying C01/C03 or a clean error": on the request-size suite a malformed or
# misplaced handle is a C04 violation as well
ALSO = {"C04": {"sizes": (("C01", None), ("C03", None)), "ro": (("C09", ("ab", "at", "aa")),),
                # "... either returns a handle satisfying C01/C03 or returns an error": whatever an allocation call hands out
                "core": (("C01", ("ab", "at", "aa")), ("C03", ("ab", "at", "aa")))},
        # "ranges that had been freed remain reusable" and "new allocations never overlap ranges that were live before
        # closing": on the close/reopen histories these are the list-policy predicates (C10) and the disjointness from
        # ranges whose handles were given up at the close (filed under C13) of the allocation calls
        "C05": {"reopen": (("C10", ("ab", "at", "aa")), ("C13", ("ab", "at", "aa")), ("C01", ("ab", "at", "aa")))},
        # "clear() ... reserved prefix untouched"
        "C17": {"ctl": (("C16", ("clear",)),)},
        # the read-only clauses of C18 / C20 are judged by the read-only predicates (listed under C09) on the same events
        "C18": {"ro": (("C09", ("truncate",)),)},
        "C20": {"ro": (("C09", ("discard",)),)}}

RULES = {
    "C05": ("reopen events (state before close compared with state after open)", lambda st: st.get("reopen", 0)),
    "C09": ("reopen events + mutating calls issued on read-only sessions", lambda st: st.get("reopen", 0)),
    "C01": ("drivers in which an allocation was served from recycled space (free list) while other handles were live",
            lambda st: st["drivers_with_reuse"]),
    "C03": ("allocation events served from a recycled segment by a typed/aligned call, plus zero-sized requests",
            lambda st: st["slow_typed"] + st["zero_sized"]),
    "C04": ("allocation calls that ended in an error (state compared before/after)", lambda st: st["err"]),
    "C08": ("alloc_bytes events served from recycled or rewound space (previous contents non-zero)",
            lambda st: st["slow_bytes"] + st["rewind"]),
    "C10": ("events that changed the free list (segment created, split, served) or were refused by it",
            lambda st: st["became_segment"] + st["split"] + st["slow_bytes"] + st["slow_typed"] + st["drivers_with_error"]),
    "C11": ("lock-step events beyond the fast path (reuse, errors, releases creating segments)",
            lambda st: st["slow_bytes"] + st["slow_typed"] + st["err"] + st["became_segment"] + st["too_small"]),
    "C16": ("construction attempts + drivers compared byte-for-byte across three backends", lambda st: st["drivers"]),
    "C17": ("rewind and clear events", lambda st: st["rewind"] + st["clear"]),
    "C18": ("truncate events", lambda st: st["truncate"]),
    "C20": ("events that changed discarded(): too-small releases, segment headers, discard_freelist",
            lambda st: st["too_small"] + st["became_segment"] + st["split"]),
}


def model_cex_suite(prop, mc, tier, seed, profile="dev"):
    """Histories in which the *model* violates a predicate of prop: replay each on the real code."""
    drivers = []
    for r in mc:
        for key, h in (r.get("modelviol") or {}).items():
            if key.startswith(prop + ":"):
                be = eng_seq.LAYOUTS[r["layout"]][2][0]
                drivers.append({"id": "cex:%s:%s" % (r["name"], key),
                                "cfg": eng_seq.cfg_for(r["layout"], r["params"]["Kind"], be, cap=r["params"]["Cap"]),
                                "ops": h, "expect": key})
    return drivers


def run(prop, tier, seed):
    t0 = time.time()
    mc = eng_seq.run_mc(tier)
    bad = [r for r in mc if r["rc"] != 0]
    if bad:
        raise ToolError("MCSeq configuration %s ended with rc=%s: %s" % (bad[0]["name"], bad[0]["rc"], bad[0].get("error", "")[-1500:]))
    results = []
    for (suite, profile) in PLAN[prop]:
        results.append(eng_seq.run_suite(suite, tier, seed, mc, profile=profile))
    # model counterexamples for this property must reproduce on the code (else the model is wrong: exit 2)
    cex = model_cex_suite(prop, mc, tier, seed)
    model_only = []
    if cex:
        eng_seq.SUITES["_cex_" + prop] = lambda mc_, tier_, seed_, c=cex: c
        rc = eng_seq.run_suite("_cex_" + prop, tier, seed, mc)
        results.append(rc)
        for d in cex:
            pred = d["expect"].split(":")[1]
            hit = [v for v in rc["viol"] if v["driver"] == d["id"] and v["prop"] == prop and v["pred"] == pred]
            if not hit:
                # the model and the code disagree on this history: reported as DRIFT (the implementation-level validation
                # of the same driver says where), never as a violation and never silently
                model_only.append({"what": "model-counterexample-not-reproduced:" + d["expect"], "driver": d["id"], "i": len(d["ops"]), "op": d["ops"][-1]})
    viol, drift = [], list(model_only)
    events = drivers = 0
    stats_total = {}
    samples = []
    for r in results:
        events += r["events"]
        drivers += r["drivers"]
        for k, v in r["stats"].items():
            stats_total[k] = stats_total.get(k, 0) + v
        also = ALSO.get(prop, {}).get(r["suite"], ())

        def counts(v):
            if v["prop"] == prop:
                return True
            for (p2, kinds) in also:
                if v["prop"] == p2 and (kinds is None or ((v.get("op") or {}).get("k") in kinds)):
                    return True
            return False

        for v in r["viol"]:
            if counts(v):
                v = dict(v)
                if v["prop"] != prop:
                    v["pred"] = "%s.%s" % (v["prop"], v["pred"])
                    v["prop"] = prop
                v["sig"] = verdict.signature(v)
                v["driver_obj"] = (r.get("viol_drivers") or {}).get(v["driver"])
                viol.append(v)
        drift += r["drift"]
        samples.append({"suite": r["suite"], "driver": r["samples"][0]})
    rule, fn = RULES[prop]
    coverage = {
        "states": sum(r.get("distinct", 0) for r in mc),
        "transitions": sum(r.get("generated", 0) for r in mc),
        "traces_validated_against_impl": drivers,
        "samples": samples[:3],
        "evaluations": events,
        "distinct_nontrivial": fn(stats_total),
        "rule": "every transition of %d MCSeq configurations evaluated all ArenaProps predicates; real executions: "
                "TLC edge-cover drivers + seeded random drivers, each event checked by TraceSeqProp; non-trivial = %s" % (len(mc), rule),
        "exhaustive": False,
        "mc_configurations": len(mc),
        "model_counterexamples_replayed": len(cex),
        "suites": [{"suite": r["suite"], "profile": r["profile"], "drivers": r["drivers"], "events": r["events"],
                    "violation_events": len([v for v in r["viol"] if v["prop"] == prop]), "drift_events": len(r["drift"])} for r in results],
        "trace_stats": stats_total,
    }
    if prop == "C05":
        # beyond the list (C05 quantifies over "with or without an explicit flush"): which ranges the flush family hands to
        # msync(2), against spec/Flush.tla. Informational: never a violation of C05, never a reason to fail the check.
        try:
            import check_flush
            fl = check_flush.run_all(tier, quiet=True)
            coverage["beyond_list_flush"] = fl
            coverage["states"] += fl["model"]["combinations"]
            for r in fl["real"]:
                if r["beyond_list_violations"]:
                    print("NOTE beyond-list flush (%s build): %s" % (r["profile"], ", ".join(
                        "%s x%d" % (k, v["count"]) for k, v in r["beyond_list_violations"].items())))
        except Exception as e:  # strace not permitted, ...
            coverage["beyond_list_flush"] = {"not_run": str(e)[:300]}
    if prop == "C09":
        # first half of C09: open attempts on valid / damaged files (ArenaFile model + TraceOpen)
        import check_open
        cov2, v2, d2, _ = check_open.run(prop, tier, seed)
        viol += v2
        drift += d2
        coverage["states"] += cov2["states"]
        coverage["transitions"] += cov2["transitions"]
        coverage["traces_validated_against_impl"] += cov2["traces_validated_against_impl"]
        coverage["evaluations"] += cov2["evaluations"]
        coverage["distinct_nontrivial"] += cov2["distinct_nontrivial"]
        coverage["samples"].append({"suite": "open-attempts", "driver": cov2["samples"][0]})
        coverage["rule"] += "; " + cov2["rule"]
        coverage["open_attempts"] = cov2["evaluations"]
    if prop == "C09":
        # beyond the list: the advisory file locks of sessions sharing one file, against spec/Locks.tla. Informational:
        # never a violation of C09, never a reason to fail the check.
        try:
            import check_locks
            lk = check_locks.run_all(tier, quiet=True)
            lk["model"].pop("assignments", None)
            coverage["beyond_list_locks"] = lk
            for r in lk["real"]:
                if r["beyond_list_violations"] or r["drift"]:
                    print("NOTE beyond-list locks (%s build): %s" % (r["profile"], ", ".join(
                        "%s x%d" % (k, v["count"]) for k, v in list(r["beyond_list_violations"].items()) + list(r["drift"].items()))))
        except Exception as e:
            coverage["beyond_list_locks"] = {"not_run": str(e)[:300]}
    assumptions = [
        "ArenaSeq is a hand-written transcription of unsync.rs/sync.rs; its fidelity is checked on every replayed event by TraceSeqImpl (DRIFT if it fails)",
        "small-scope exhaustive exploration (cap 96..127, <= %d calls after scripted prefixes) plus sampled larger histories" % (6 if tier == "thorough" else 5),
        "numbers >= 2^30 are saturated in traces (all configurations have capacity < 2^30)",
    ]
    return verdict.finish(prop, tier, seed, t0, coverage, viol, drift, assumptions=assumptions,
                          replay_payload={"engine": "seq", "tier": tier, "seed": seed})


def replay(payload):
    """Re-run one recorded driver and re-validate it."""
    d = payload["driver"]
    if d is None:
        raise ToolError("replay file has no driver")
    prop = payload["property"]
    prof = (payload.get("violation") or {}).get("profile") or "dev"
    eng_seq.SUITES["_replay"] = lambda mc_, tier_, seed_: [d]
    r = eng_seq.run_suite("_replay", "quick", int(time.time()), [], profile=prof)
    hits = [v for v in r["viol"] if v["prop"] == prop]
    for v in hits:
        print("VIOL %s %s op#%s %s -> %s" % (v["prop"], v["pred"], v["i"], json.dumps(v["op"]), json.dumps(v["res"])))
    print("replay: %d violation event(s) of %s reproduced" % (len(hits), prop))
    return 1 if hits else 0
