"""C06: a process crash at any point leaves a file that reopens to a consistent, usable arena.

Model: MCCrash (ArenaSync + Crash enabled in every state + reopen zeroing + probe thread), TLC safety + liveness.
Code:  the controlled scheduler snapshots the arena file before every step of TLC-generated schedules (every gap between
       two atomic accesses, before the first and after the last); a forked child reopens each snapshot with map_mut and
       runs the probe program under an alarm; TraceCrash judges.  Model counterexamples (schedule + crash index) are
       replayed the same way before anything is reported."""
import hashlib
import json
import os
import random
import shutil
import time
from concurrent.futures import ThreadPoolExecutor

import eng_sync as es
import rv
import verdict
from rv import ToolError, log

AB = lambda n: {"k": "ab", "n": n}
FILL = lambda h: {"k": "fill", "h": h}
DROP = lambda h: {"k": "drop", "h": h}
T0, T1, T2 = 51, 101, 151

# data area = [32, 232): three allocations fill it exactly; dropping the first leaves one segment
SETUP_ONESEG = [AB(64), FILL(1), AB(72), FILL(2), AB(64), FILL(3), DROP(1)]
SETUP_TWOSEG = [AB(40), FILL(1), AB(24), FILL(2), AB(56), FILL(3), AB(16), FILL(4), AB(64), FILL(5), DROP(1), DROP(3)]
SETUP_FRESH = [AB(16), FILL(1)]


def probe_for(nworkers):
    """The probe as harness ops and as model ops (thread id = nworkers)."""
    base = (nworkers + 1) * 50
    harness = [AB(8), AB(24), {"k": "drop_first"}, {"k": "discard"}, AB(16)]
    model = [AB(8), AB(24), DROP(base + 1), {"k": "discard"}, AB(16)]
    return harness, model


def scenarios(tier):
    sc = []
    for kind in ["opt", "pes"]:
        c = es.conc_cfg(cap=232, kind=kind, minseg=8, retries=2, backend="file", unify=True)
        sc.append(("crash_pop_insert_" + kind, c, SETUP_ONESEG, [[AB(16), FILL(T0)], [DROP(2)]]))
        sc.append(("crash_split_" + kind, c, SETUP_TWOSEG, [[AB(8), FILL(T0), DROP(T0)]]))
        sc.append(("crash_discard_" + kind, c, SETUP_TWOSEG, [[{"k": "discard"}], [AB(8), FILL(T1)]]))
    c = es.conc_cfg(cap=232, kind="opt", minseg=8, retries=2, backend="file", unify=True)
    sc.append(("crash_fresh_opt", c, SETUP_FRESH, [[AB(24), FILL(T0), DROP(T0)], [AB(40), FILL(T1)]]))
    c = es.conc_cfg(cap=232, kind="none", minseg=8, retries=2, backend="file", unify=True)
    sc.append(("crash_fresh_none", c, SETUP_FRESH, [[AB(24), FILL(T0), DROP(T0)], [AB(40), FILL(T1), DROP(T1)]]))
    return sc


def analyse(item):
    (name, cfg, setup, progs), tier, seed, binary = item
    key = hashlib.sha256(json.dumps([rv.spec_hash(), rv.repo_hash(), name, cfg, setup, progs, tier, seed], sort_keys=True).encode()).hexdigest()[:20]
    cfile = os.path.join(rv.ensure_dir(os.path.join(rv.WORK, "sync_cache")), "crash-%s-%s.json" % (name, key))
    if os.path.exists(cfile):
        return json.load(open(cfile))
    wd = os.path.join(rv.WORK, "mc", name)
    shutil.rmtree(wd, ignore_errors=True)
    txt, reset = es.setup_state(binary, cfg, setup, name)
    ph, pm = probe_for(len(progs))
    res = {"name": name, "cfg": cfg, "setup": setup, "progs": progs, "probe": ph, "cex": []}
    t0 = time.time()
    m, c = es.write_mcsync(wd, "MCcs", cfg, txt, progs + [pm], crash=True)
    rc, out = rv.run_tlc(wd, m, c, workers=6, deque=False, timeout=1500, heap="8g")
    st = rv.tlc_stats(out)
    if st is None:
        raise ToolError("TLC failed on %s: %s" % (name, out[-2000:]))
    res.update(generated=st[0], distinct=st[1], depth=st[2], safety_rc=rc)
    if rc != 0:
        inv, sch, ca = es.violated_property(out), es.parse_error_trace_schedule(out), es.parse_crash_at(out)
        if inv is None or sch is None or ca is None or ca < 0:
            raise ToolError("TLC error on %s: %s" % (name, out[-2000:]))
        res["cex"].append({"kind": "safety", "prop": inv, "schedule": sch, "crash_at": ca})
    m, c = es.write_mcsync(wd, "MCcl", cfg, txt, progs + [pm], crash=True, liveness=True, invariants=False)
    rc, out = rv.run_tlc(wd, m, c, workers=6, deque=False, timeout=1500, heap="8g")
    st2 = rv.tlc_stats(out)
    if st2 is None:
        raise ToolError("TLC (liveness) failed on %s: %s" % (name, out[-2000:]))
    res["liveness_rc"] = rc
    if rc != 0:
        sch, ca = es.parse_error_trace_schedule(out), es.parse_crash_at(out)
        if sch is None or ca is None or ca < 0:
            raise ToolError("TLC liveness error without crash point on %s: %s" % (name, out[-2500:]))
        res["cex"].append({"kind": "liveness", "prop": "ProbeTerminates", "schedule": sch, "crash_at": ca})
    res["schedules"] = es.simulate_schedules(wd, "MCsim", cfg, txt, progs, 12 if tier == "quick" else 150, seed)
    res["wall"] = round(time.time() - t0, 1)
    shutil.rmtree(wd, ignore_errors=True)
    rv.dump_json_atomic(cfile, res)
    return res


def classify(viols, popen, threads=None):
    """Root cause of a probe that does not terminate: a node marked REMOVED is still linked in the reopened file.
    The recorded finding is the window of ONE pop: the thread that marked the node was stopped before its unlink CAS (or, when
    that CAS had failed, before the store that restores the node). A removed node on the list that no stopped thread's pending
    access explains in this way is something else (`...:unexplained`)."""
    if popen and popen.get("res", {}).get("k") == "ok":
        mem = []
        for lo, ln, v in popen["mem"]:
            mem += [v] * ln
        # walk the list from the sentinel (sync header: sentinel word at data_offset - 24)
        doff = popen["obs"]["doff"]
        sent = doff - 24
        nxt = int.from_bytes(bytes(mem[sent:sent + 4]), "little")
        seen = 0
        removed = []
        while nxt != 0xFFFFFFFF and nxt + 8 <= len(mem) and seen < 64:
            size = int.from_bytes(bytes(mem[nxt + 4:nxt + 8]), "little")
            if size == 0:
                removed.append(nxt)
            nxt = int.from_bytes(bytes(mem[nxt:nxt + 4]), "little")
            seen += 1
        if removed:
            if threads is None:
                return "linked-removed-node"
            explained = set()
            for t in threads:
                pa = t.get("pending") or {}
                if t.get("done") or not pa:
                    continue
                a0, a1 = pa.get("a0"), pa.get("a1")
                # unlink CAS: (size, next = the removed node) -> (size, its successor) on the sentinel or the predecessor
                if pa.get("kind") == "cas" and pa.get("loc") in ("sent", "node") and isinstance(a0, list) and isinstance(a1, list) \
                        and a0[0] == a1[0] and a0[1] != a1[1] and a0[1] in removed:
                    explained.add(a0[1])
                # restore store after a failed unlink: the node's own word gets its size back
                if pa.get("kind") == "store" and pa.get("loc") == "node" and pa.get("off") in removed and isinstance(a0, list) and a0[0] != 0:
                    explained.add(pa["off"])
            return "linked-removed-node" if set(removed) <= explained else "linked-removed-node:unexplained"
    return "other"


def run(prop, tier, seed):
    t0 = time.time()
    binary = rv.build_harness("dev")
    rng = random.Random(seed)
    scs = scenarios(tier)
    with ThreadPoolExecutor(max_workers=3) as ex:
        analysed = list(ex.map(analyse, [(s, tier, seed, binary) for s in scs]))
    log("MCCrash: %d scenarios, %d distinct states, %d model counterexamples" % (
        len(analysed), sum(a["distinct"] for a in analysed), sum(len(a["cex"]) for a in analysed)))
    drivers = []
    for a in analysed:
        for i, cx in enumerate(a["cex"]):
            drivers.append({"id": "cex:%s:%s:%d" % (a["name"], cx["prop"], i), "cfg": a["cfg"], "setup": a["setup"], "threads": a["progs"],
                            "schedule": cx["schedule"], "crash_at": [cx["crash_at"] + 1], "budget": 4000, "probe": a["probe"]})
        for i, s in enumerate(a["schedules"]):
            drivers.append({"id": "sim:%s:%d" % (a["name"], i), "cfg": a["cfg"], "setup": a["setup"], "threads": a["progs"],
                            "schedule": s, "crash_at": "all", "budget": 4000, "probe": a["probe"]})
    for k, e in enumerate(rv.load_findings()):
        if e.get("property") == "C06" and e.get("witness"):
            w = dict(e["witness"])
            w["id"] = "wit:C06:%d" % k
            drivers.append(w)
    shutil.rmtree(os.path.join(rv.WORK, "conc", "crash-%s" % tier, "files"), ignore_errors=True)
    trace = es.run_conc(binary, drivers, "crash-%s" % tier, keep_files=True)
    by_id = {d["id"]: d for d in drivers}
    # collect the snapshots
    snaps = []
    cur = None
    with open(trace) as f:
        for ln in f:
            if ln.startswith('{"cfg"') and '"ev":"reset"' in ln[:800]:
                cur = json.loads(ln)["id"]
            elif ln.startswith('{"before_step"'):
                e = json.loads(ln)
                e["id"] = "%s@%d" % (cur, e["before_step"])
                e["driver"] = cur
                e["probe"] = by_id[cur]["probe"]
                e["flavor"] = "sync"
                snaps.append(e)
    wd = rv.ensure_dir(os.path.join(rv.WORK, "crash"))
    sfile, pfile = os.path.join(wd, "snaps.ndjson"), os.path.join(wd, "probe.ndjson")
    tp = time.time()
    # probes run in parallel batches (a hanging probe costs its alarm)
    nb = 12
    batches = [snaps[i::nb] for i in range(nb)]

    def one(k):
        sf, pf = sfile + ".%d" % k, pfile + ".%d" % k
        rv.write_ndjson(sf, batches[k])
        rv.run_harness(binary, "probe", [sf, pf, "1"], timeout=3600)
        with open(pf) as f:
            t = f.read()
        os.remove(sf)
        os.remove(pf)
        return t

    with ThreadPoolExecutor(max_workers=nb) as ex:
        parts = list(ex.map(one, range(nb)))
    with open(pfile, "w") as f:
        f.write("".join(parts))
    log("crash points: %d snapshots probed in %.1fs" % (len(snaps), time.time() - tp))
    shutil.rmtree(os.path.join(rv.WORK, "conc", "crash-%s" % tier, "files"), ignore_errors=True)
    r = rv.validate_trace(pfile, "TraceCrash.tla", "TraceCrash.cfg", "crash")
    lines = r["lines"]
    viol = []
    for (p, pred, gl, _) in r["viol"]:
        reset, ev = rv.locate(lines, gl)
        sid = reset["id"]
        # the p_open event of this snapshot
        j = gl - 1
        popen = None
        while j >= 0 and '"ev":"reset"' not in lines[j]:
            if '"ev":"p_open"' in lines[j]:
                popen = json.loads(lines[j])
            j -= 1
        cause = classify(None, popen, json.loads(reset["threads"])) if pred in ("ProbeTerminates",) else "-"
        did = reset["driver"]
        viol.append({"prop": p, "pred": pred, "driver": sid, "i": reset["before_step"], "arena": 0, "op": {"threads": json.loads(reset["threads"])},
                     "res": ev if ev.get("ev") != "p_open" else {"ev": "p_open", "res": ev.get("res")},
                     "sig": "C06:%s:cause=%s" % (pred, cause),
                     "driver_obj": dict({k: by_id[did][k] for k in ("cfg", "setup", "threads", "schedule", "budget", "probe")}, crash_at=[reset["before_step"]], id=did)})
    # model counterexamples are replayed on the real code
    model_only = []
    for a in analysed:
        for i, cx in enumerate(a["cex"]):
            did = "cex:%s:%s:%d" % (a["name"], cx["prop"], i)
            if not [v for v in viol if v["driver"].startswith(did + "@")]:
                # the code took other steps than the model at that point (a changed tree, reported as DRIFT by the
                # implementation-level validation of C02/C07), or the defect behind the counterexample is gone
                log("model counterexample %s (crash after %d steps) does not reproduce on the real code" % (did, cx["crash_at"]))
                model_only.append(did)
    coverage = {
        "states": sum(a["distinct"] for a in analysed), "transitions": sum(a["generated"] for a in analysed),
        "traces_validated_against_impl": len(snaps),
        "samples": [{"scenario": analysed[0]["name"], "programs": analysed[0]["progs"], "probe": analysed[0]["probe"],
                     "snapshot": {k: snaps[0][k] for k in ("id", "before_step", "live", "threads")} if snaps else None}],
        "evaluations": len(snaps),
        "distinct_nontrivial": len({(s["driver"].split(":")[1], json.dumps(s["threads"], sort_keys=True)) for s in snaps}),
        "rule": "MCCrash: Crash enabled in every reachable state of %d scenarios (safety + probe termination under fairness); real code: the arena file copied "
                "before every step of TLC-generated schedules and probed in a child; non-trivial = distinct (scenario, per-thread pending access) crash points" % len(analysed),
        "exhaustive": False,
        "scenarios": [{"name": a["name"], "distinct": a["distinct"], "safety_rc": a["safety_rc"], "liveness_rc": a["liveness_rc"],
                       "schedules": len(a["schedules"]), "cex": [c["prop"] for c in a["cex"]]} for a in analysed],
        "probe_timeouts": len([v for v in viol if v["pred"] == "ProbeTerminates"]),
        "model_counterexamples_not_reproduced": model_only,
    }
    assumptions = [
        "crash = process death with the page cache intact (the file holds every completed store); torn pages / power loss are out of scope",
        "crash points are the gaps between the crate's atomic accesses (and Meta::clear) as serialised by the controlled scheduler",
        "unsync::Arena performs no atomic accesses: its crash points are operation boundaries, covered by the close/reopen histories of C05",
        "a probe operation is judged non-terminating when the child is killed by a 1 s alarm (the probe takes < 1 ms otherwise)",
    ]
    return verdict.finish(prop, tier, seed, t0, coverage, viol, [], assumptions=assumptions,
                          replay_payload={"engine": "crash", "tier": tier, "seed": seed})


def replay(payload):
    d = payload["driver"]
    binary = rv.build_harness("dev")
    trace = es.run_conc(binary, [d], "crash-replay", keep_files=True)
    snaps = []
    with open(trace) as f:
        for ln in f:
            if ln.startswith('{"before_step"'):
                e = json.loads(ln)
                e.update(id="replay@%d" % e["before_step"], driver="replay", probe=d["probe"], flavor="sync")
                snaps.append(e)
    wd = rv.ensure_dir(os.path.join(rv.WORK, "crash"))
    sfile, pfile = os.path.join(wd, "rsnaps.ndjson"), os.path.join(wd, "rprobe.ndjson")
    rv.write_ndjson(sfile, snaps)
    rv.run_harness(binary, "probe", [sfile, pfile, "2"], timeout=600)
    r = rv.validate_trace(pfile, "TraceCrash.tla", "TraceCrash.cfg", "crash-replay", parts=1)
    for v in r["viol"]:
        print("VIOL %s %s line %d" % v[:3])
    print("replay: %d violation event(s) reproduced" % len(r["viol"]))
    return 1 if r["viol"] else 0
