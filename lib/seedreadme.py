#!/usr/bin/env python3
"""Rebuild seeded/README.md from seeded/*/meta.json."""
import glob
import json
import os

HERE = os.path.dirname(os.path.dirname(os.path.abspath(__file__)))
rows = []
for f in sorted(glob.glob(os.path.join(HERE, "seeded", "*", "meta.json"))):
    m = json.load(open(f))
    c = m.get("confirmation", {})
    checks = c.get("checks", {})
    rows.append("| %s | %s | %s | %s | %s | %s |" % (
        m.get("id"), m.get("property"), m.get("summary", "").replace("|", "/")[:220], m.get("needs", "").replace("|", "/")[:200],
        "demo %s→%s, suite %s" % (c.get("demo_without_change", "-"), c.get("demo_with_change", "-"), "ok" if c.get("baseline_with_change", {}).get("ok") else "?"),
        "; ".join("%s: %s%s" % (k, v["verdict"], (" (" + ", ".join(s.split("@")[0] for s in v["signatures"][:2]) + ")") if v.get("signatures") else "") for k, v in checks.items())))
with open(os.path.join(HERE, "seeded", "README.md"), "w") as f:
    f.write("# Seeded changes\n\nEach change was written by an independent sub-agent that saw only the property text and a scratch worktree "
            "(nothing from /verif), compiles, passes the crate's 68 + 42 tests, and comes with a demonstration that fails with the change and passes "
            "without it. `lib/seedtool.py confirm` re-established all of that in a fresh worktree and ran the listed checks against the patched tree "
            "(`RV_REPO=<tree> ./bin/check <ID> --tier quick`).\n\n"
            "| id | property | change | needs | confirmed | checks |\n|---|---|---|---|---|---|\n" + "\n".join(rows) + "\n"
            "\n## Prompts\n\n`prompts/` holds the texts the sub-agents were given (they saw nothing of /verif): `seed_prompt.txt` (one property), "
            "`area_prompt.txt` (one source region; from round 8 on together with `avoid.txt`, the one-line summaries of the changes already "
            "recorded), `harm_prompt.txt` (behaviour-preserving changes), `props_all.json` (the property texts).\n")
print(len(rows), "rows")
