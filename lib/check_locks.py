"""Beyond the listed properties: the advisory file locks of arenas that share one file, against spec/Locks.tla.

 - MCLocks: every history of open / clone / drop / lock / try_lock / unlock over three sessions (two arena values each at
   most), for several assignments of open variants (writable, read-only, copy-on-write, no file at all): the kernel's rule
   (never an exclusive lock next to any other) is an invariant, the monitor predicates a user relies on hold on every
   transition, and every transition is emitted as a driver (7 408 transitions per assignment);
 - real code: every driver on sync and unsync arenas; TraceLocks judges the recorded results (XLK predicates) and checks
   that the model -- including Linux's "a refused change of mode loses the lock one had" -- predicts every result (DRIFT).

No listed property speaks about file locks: results are BEYOND-LIST lines, stored in the evidence of C09 (the property about
the open variants), and never affect a verdict.
"""
import json
import os
import shutil
import time

import rv
from rv import ToolError, log

KINDS = [("map_mut", "map_mut", "map"), ("map_mut", "map_copy", "anon"), ("map_copy_ro", "map_mut", "vec"), ("map", "map", "map_copy")]
CFG = """SPECIFICATION Spec
CONSTANTS
  Sessions = {1, 2, 3}
  MaxVals = 2
  K1 = "%s"
  K2 = "%s"
  K3 = "%s"
  Emit = TRUE
VIEW View
INVARIANTS Mutex OpenHold FilesHold SureIsHeld HeldIsMaybe
CHECK_DEADLOCK FALSE
"""


def mc():
    key = rv.spec_hash("locks" + json.dumps(KINDS))[:16]
    cf = os.path.join(rv.ensure_dir(rv.MC_CACHE), "locks-%s.json" % key)
    if os.path.exists(cf):
        return json.load(open(cf))
    res = []
    for kinds in KINDS:
        wd = os.path.join(rv.WORK, "mc", "locks")
        shutil.rmtree(wd, ignore_errors=True)
        rv.ensure_dir(wd)
        with open(os.path.join(wd, "MCLocks.cfg"), "w") as f:
            f.write(CFG % kinds)
        rc, out = rv.run_tlc(wd, "MCLocks.tla", "MCLocks.cfg", workers=1, deque=False, timeout=900, heap="4g")
        st = rv.tlc_stats(out)
        if st is None:
            raise ToolError("MCLocks failed: %s" % out[-1500:])
        r = {"kinds": list(kinds), "rc": rc, "generated": st[0], "distinct": st[1], "drivers": rv.prefix_maximal(rv.parse_drv(out))}
        if rc != 0:
            r["error"] = out[-2500:]
        res.append(r)
        shutil.rmtree(wd, ignore_errors=True)
    rv.dump_json_atomic(cf, res)
    return res


def run_real(m, tier, profile="dev"):
    binary = rv.build_harness(profile)
    wd = rv.ensure_dir(os.path.join(rv.WORK, "locks-" + profile))
    dfile, tfile = os.path.join(wd, "drivers.ndjson"), os.path.join(wd, "trace.ndjson")
    ds = []
    for r in m:
        for flavor in ["sync", "unsync"]:
            drv = r["drivers"]
            if tier == "quick":
                drv = drv[(0 if flavor == "sync" else 1)::2]
            for k, ops in enumerate(drv):
                ds.append({"id": "locks:%s:%s:%d" % ("-".join(r["kinds"]), flavor, k), "flavor": flavor, "kinds": r["kinds"],
                           "cfg": {"cap": 256, "reserved": 0, "kind": "opt", "minseg": 8, "unify": True, "magic": 0}, "ops": ops})
    rv.write_ndjson(dfile, ds)
    rc, out, _ = rv.run_harness(binary, "locks", [dfile, tfile, os.path.join(wd, "files")], timeout=1800, allow_fail=True)
    if rc != 0:
        raise ToolError("locks harness failed rc=%s: %s" % (rc, out[-1500:]))
    r = rv.validate_trace(tfile, "TraceLocks.tla", "TraceLocks.cfg", "locks-" + profile, parts=8)
    lines = r["lines"]
    viol, drift = {}, {}
    for (_, pred, gl, _) in r["viol"]:
        reset, e = rv.locate(lines, gl)
        viol.setdefault("%s@%s" % (pred, e["op"]["k"]), []).append({"driver": reset["id"], "i": e["i"], "op": e["op"], "res": e["res"]})
    for (gl, _, w) in r["drift"]:
        reset, e = rv.locate(lines, gl)
        drift.setdefault("%s@%s" % (w, e.get("op", {}).get("k", "reset")), []).append({"driver": reset["id"], "i": e.get("i"), "op": e.get("op"), "res": e.get("res")})
    shutil.rmtree(os.path.join(wd, "files"), ignore_errors=True)
    n_ops = sum(1 for ln in lines if '"ev":"op"' in ln)
    return {"profile": profile, "drivers": len(ds), "calls": n_ops,
            "refused": sum(1 for ln in lines if '"v":false' in ln),
            "beyond_list_violations": {s: {"count": len(v), "first": v[0]} for s, v in sorted(viol.items())},
            "drift": {s: {"count": len(v), "first": v[0]} for s, v in sorted(drift.items())}}


def run_all(tier, quiet=False):
    t0 = time.time()
    m = mc()
    bad = [r for r in m if r["rc"] != 0]
    if bad:
        raise ToolError("the Locks model violates its own predicates: %s" % bad[0].get("error", "")[-800:])
    res = {"model": {"assignments": [r["kinds"] for r in m], "states": sum(r["distinct"] for r in m), "transitions": sum(r["generated"] for r in m),
                     "drivers": sum(len(r["drivers"]) for r in m)},
           "real": [run_real(m, tier, "dev")]}
    res["wall_s"] = round(time.time() - t0, 1)
    for r in res["real"]:
        log("locks (%s): %d drivers, %d calls (%d refused), %d beyond-list signature(s), %d drift signature(s)" % (
            r["profile"], r["drivers"], r["calls"], r["refused"], len(r["beyond_list_violations"]), len(r["drift"])))
        for s, v in ([] if quiet else list(r["beyond_list_violations"].items()) + list(r["drift"].items())):
            print("BEYOND-LIST locks %s (%s build, x%d) e.g. %s" % (s, r["profile"], v["count"], json.dumps(v["first"])[:300]))
    return res


def run(prop, tier, seed):
    res = run_all(tier)
    print(json.dumps(res, indent=1)[:3000])
    return 0
