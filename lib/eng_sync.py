"""Concurrent engine: ArenaSync micro-op model (TLC: invariants, liveness, schedules) + controlled scheduler
(harness conc) + TraceSyncProp / TraceSyncImpl validation.  Serves C02, C07 (and feeds C12, C06)."""
import hashlib
import json
import os
import random
import re
import shutil
import time
from concurrent.futures import ThreadPoolExecutor

import rv
from rv import ToolError, log

AB = lambda n: {"k": "ab", "n": n}
# the list protocol the model describes: as found (False) or repaired (True); follows the code at /repo HEAD
FIXED_LIST = os.environ.get("RV_FIXED_LIST", "1") == "1"   # repaired by fix: d88e149 + a6d73ef


def conc_cfg(cap=200, kind="opt", minseg=8, retries=2, backend="vec", unify=False, own_clones=False):
    c = {"cap": cap, "kind": kind, "minseg": minseg, "unify": unify, "backend": backend, "reserved": 0,
         "retries": retries}
    if own_clones:
        c["own_clones"] = True
    return c


def sanitize(lines):
    """The harness never writes `null` and never writes a malformed record: one that is there was produced by a process
    whose own memory had been overwritten (an arena that zeroes or links beyond its buffer corrupts the heap it lives in).
    Such a record ends its driver as a death -- data, not a tool error -- and the rest of that driver is not looked at."""
    out, skipping = [], False
    for l in lines:
        is_reset = l.startswith('{"cfg"') or '"ev":"reset"' in l[:400]
        if is_reset:
            skipping = False
        if skipping:
            continue
        bad = "null" in l
        if not bad:
            try:
                json.loads(l)
            except ValueError:
                bad = True
        if bad and not is_reset:
            out.append(json.dumps({"ev": "died", "rc": -997}) + "\n")
            skipping = True
            continue
        out.append(l)
    return out


def run_conc(binary, drivers, tag, timeout=600, keep_files=False):
    """Run conc drivers; a stuck driver ends the process (exit 3): restart with the remaining drivers."""
    wd = rv.ensure_dir(os.path.join(rv.WORK, "conc", tag))
    tfile = os.path.join(wd, "trace.ndjson")
    pending = list(drivers)
    out_lines = []
    part = 0
    while pending:
        dfile = os.path.join(wd, "drivers.%d.ndjson" % part)
        ofile = os.path.join(wd, "out.%d.ndjson" % part)
        rv.write_ndjson(dfile, pending)
        rc, out, _ = rv.run_harness(binary, "conc", [dfile, ofile, os.path.join(wd, "files")], timeout=timeout, allow_fail=True,
                                    watch=ofile, stall=45)
        with open(ofile) as f:
            got = [l for l in f.readlines() if l.endswith("\n")]
        out_lines += got
        os.remove(dfile)
        os.remove(ofile)
        if rc == 0:
            break
        n_reset = sum(1 for l in got if l.startswith('{"cfg"') or '"ev":"reset"' in l[:400])
        if rc == 3 and n_reset > 0:
            pending = pending[n_reset:]
            part += 1
            continue
        # the process died (signal): record it as an event so that the monitor sees it
        if n_reset == 0:
            raise ToolError("conc harness failed before the first driver: rc=%s %s" % (rc, out[-800:]))
        out_lines.append(json.dumps({"ev": "died", "rc": rc}) + "\n")
        pending = pending[n_reset:]
        part += 1
    out_lines = sanitize(out_lines)
    with open(tfile, "w") as f:
        f.writelines(out_lines)
    if not keep_files:
        shutil.rmtree(os.path.join(wd, "files"), ignore_errors=True)
    return tfile


# --------------------------------------------------------------------------- setup states from the real code
def setup_state(binary, cfg, setup_ops, tag):
    """Run the setup history on the real arena (no threads) and return the quiescent state as TLA+ text."""
    d = {"id": "setup", "cfg": cfg, "setup": setup_ops, "threads": [], "schedule": []}
    t = run_conc(binary, [d], "setup-" + tag)
    with open(t) as f:
        ev = [json.loads(l) for l in f]
    reset = ev[0]
    if not reset.get("ok"):
        raise ToolError("setup arena could not be built: %s" % reset)
    mem = []
    for lo, ln, v in reset["mem"]:
        mem += [v] * ln
    handles = {}
    live = set()
    for e in reset["setup"]:
        if e["ev"] == "ret" and e["op"]["k"] in ("ab", "at", "aa") and e["res"]["k"] == "ok":
            r = e["res"]
            handles[r["h"]] = dict(mo=r["mo"], ms=r["ms"], po=r["po"], ps=r["ps"], pat=0)
            live.add(r["h"])
        elif e["ev"] == "ret" and e["op"]["k"] == "fill" and e["res"]["k"] == "ok":
            handles[e["op"]["h"]]["pat"] = ((e["op"]["h"] - 1) % 250) + 1
        elif e["ev"] == "call" and e["op"]["k"] in ("drop", "dealloc", "leak"):
            live.discard(e["op"]["h"])
    fl = reset["obs"]["fl"]
    sent = "WS" if not fl else "W(NIL, %d)" % fl[0][0]
    hs = " @@ ".join("(%d :> [mo |-> %d, ms |-> %d, po |-> %d, ps |-> %d, pat |-> %d, t |-> -1, wat |-> 0, wv |-> W0])" % (
        h, m["mo"], m["ms"], m["po"], m["ps"], m["pat"]) for h, m in sorted(handles.items()) if h in live)
    if not hs:
        hs = "[x \\in {} |-> 0]"
    text = ("[cursor |-> %d, disc |-> %d, sent |-> %s, refs |-> REFS0,\n   mem |-> [i \\in 0..%d |-> <<%s>>[i + 1]],\n   handles |-> %s]" % (
        reset["obs"]["alloc"], reset["obs"]["disc"], sent, len(mem) - 1, ",".join(str(b) for b in mem), hs))
    return text, reset


def refs0(cfg, progs):
    """Reference count when the threads start: own_clones = one arena value per thread (the main one is gone)."""
    return len(progs) if cfg.get("own_clones") else 1


def tla_op(op):
    parts = []
    for k, v in op.items():
        if isinstance(v, bool):
            continue
        if isinstance(v, list):
            parts.append("%s |-> <<%s>>" % (k, ", ".join(str(x) for x in v)))
            continue
        parts.append("%s |-> %s" % (k, ('"%s"' % v) if isinstance(v, str) else str(v)))
    return "[" + ", ".join(parts) + "]"


def data_off(cfg):
    return 32 if (cfg.get("unify") or cfg.get("backend") == "file") else 1


def write_mcsync(wd, name, cfg, setup_text, progs, emit=False, liveness=False, invariants=True, hb=False, crash=False, cover=False):
    rv.ensure_dir(wd)
    n = len(progs)
    with open(os.path.join(wd, name + ".tla"), "w") as f:
        f.write("---- MODULE %s ----\nEXTENDS %s\n" % (name, "MCCrash" if crash else "MCSyncHB" if hb else "MCSync"))
        f.write("mcThreads == 0..%d\n" % (n - 1))
        f.write("mcProg == %s\n" % " @@ ".join("(%d :> <<%s>>)" % (i, ", ".join(tla_op(o) for o in p)) for i, p in enumerate(progs)))
        f.write("mcSetup == %s\n" % setup_text.replace("REFS0", str(refs0(cfg, progs))))
        f.write("====\n")
    with open(os.path.join(wd, name + ".cfg"), "w") as f:
        if crash:
            f.write("SPECIFICATION %s\nVIEW CView\nCONSTANTS\n" % ("CFairSpec" if liveness else "CSpec"))
        elif hb:
            f.write("SPECIFICATION HSpec\nVIEW HView\nCONSTANTS\n")
        else:
            f.write("SPECIFICATION %s\nVIEW View\nCONSTANTS\n" % ("MCFairSpec" if liveness else "MCSpec"))
        f.write("  Threads <- mcThreads\n  Prog <- mcProg\n  Setup <- mcSetup\n  FixedList = %s\n" % ("TRUE" if FIXED_LIST else "FALSE"))
        f.write("  Cap = %d\n  DataOff = %d\n  Kind = \"%s\"\n  MinSeg0 = %d\n  MaxRetries = %d\n" % (
            cfg["cap"], data_off(cfg), cfg["kind"], cfg["minseg"], cfg.get("retries", 5)))
        if not hb and not crash:
            f.write("  Emit = %s\n  Cover = %s\n" % ("TRUE" if emit else "FALSE", "TRUE" if cover else "FALSE"))
        if crash:
            if invariants:
                f.write("INVARIANTS LiveDisjoint LiveInBounds LiveIntact NoOutOfBounds CursorInBounds\n")
            if liveness:
                f.write("PROPERTY ProbeTerminates\n")
            f.write("CHECK_DEADLOCK FALSE\n")
            return name + ".tla", name + ".cfg"
        if hb:
            f.write("INVARIANTS NoRace\n")
        elif invariants:
            f.write("INVARIANTS LiveDisjoint LiveInBounds LiveIntact NoOutOfBounds FreedAtMostOnce FreedOnlyAtZero NoAccessAfterFree\n")
        if liveness:
            f.write("PROPERTY Termination\n")
        f.write("CHECK_DEADLOCK FALSE\n")
    return name + ".tla", name + ".cfg"


SCHED_RE = re.compile(r"sched = <<([0-9, \n]*)>>")


def parse_error_trace_schedule(out):
    """The schedule of the last state of a TLC error trace."""
    ms = list(SCHED_RE.finditer(out))
    if not ms:
        return None
    body = ms[-1].group(1).strip()
    return [int(x) for x in body.replace("\n", " ").split(",") if x.strip()] if body else []


def violated_property(out):
    m = re.search(r"Invariant (\w+) is violated", out)
    if m:
        return m.group(1)
    if "Temporal propert" in out and "violated" in out:
        return "Termination"
    return None


def parse_crash_at(out):
    ms = re.findall(r"crashAt = (-?\d+)", out)
    return int(ms[-1]) if ms else None


def cover_schedules(wd, name, cfg, setup_text, progs):
    """One shortest schedule per reachable arm of the micro-op table (exhaustive breadth-first run, one worker)."""
    m, c = write_mcsync(wd, name, cfg, setup_text, progs, invariants=False, cover=True)
    rc, out = rv.run_tlc(wd, m, c, workers=1, deque=False, timeout=900, heap="4g")
    res = []
    for line in out.splitlines():
        line = line.strip()
        if line.startswith('"{\\"cover\\"'):
            e = json.loads(line[1:-1].replace('\\"', '"'))
            res.append({"label": e["cover"], "schedule": e["sched"]})
    return res


def parse_sched_lines(out):
    res = []
    for line in out.splitlines():
        line = line.strip()
        if line.startswith('"{\\"sched\\"'):
            res.append(json.loads(line[1:-1].replace('\\"', '"'))["sched"])
    return res


def write_tracesync(wd, name, cfg, setup_text, progs):
    rv.ensure_dir(wd)
    n = len(progs)
    with open(os.path.join(wd, name + ".tla"), "w") as f:
        f.write("---- MODULE %s ----\nEXTENDS TraceSyncImpl\n" % name)
        f.write("mcThreads == 0..%d\n" % (n - 1))
        f.write("mcProg == %s\n" % " @@ ".join("(%d :> <<%s>>)" % (i, ", ".join(tla_op(o) for o in p)) for i, p in enumerate(progs)))
        f.write("mcSetup == %s\n" % setup_text.replace("REFS0", str(refs0(cfg, progs))))
        f.write("====\n")
    with open(os.path.join(wd, name + ".cfg"), "w") as f:
        f.write("SPECIFICATION TSpec\nCONSTANTS\n")
        f.write("  Threads <- mcThreads\n  Prog <- mcProg\n  Setup <- mcSetup\n  FixedList = %s\n" % ("TRUE" if FIXED_LIST else "FALSE"))
        f.write("  Cap = %d\n  DataOff = %d\n  Kind = \"%s\"\n  MinSeg0 = %d\n  MaxRetries = %d\n" % (
            cfg["cap"], data_off(cfg), cfg["kind"], cfg["minseg"], cfg.get("retries", 5)))
        f.write("POSTCONDITION Post\nCHECK_DEADLOCK FALSE\n")
    return name + ".tla", name + ".cfg"


def simulate_schedules(wd, name, cfg, setup_text, progs, num, seed, depth=400):
    """Random complete behaviours of the model (TLC -simulate): their schedules."""
    m, c = write_mcsync(wd, name, cfg, setup_text, progs, emit=True, invariants=False)
    rc, out = rv.run_tlc(wd, m, c, workers=1, deque=False, timeout=300,
                         extra=["-simulate", "num=%d" % num, "-depth", str(depth), "-seed", str(seed)])
    sch = parse_sched_lines(out)
    if not sch and rc != 0:
        raise ToolError("simulation failed: %s" % out[-1500:])
    # distinct schedules only
    seen, res = set(), []
    for s in sch:
        k = tuple(s)
        if k not in seen:
            seen.add(k)
            res.append(s)
    return res


def validate_impl(trace, wd, name, cfg, setup_text, progs, timeout=900):
    m, c = write_tracesync(wd, name, cfg, setup_text, progs)
    rc, out = rv.run_tlc(wd, m, c, workers=1, env={"TRACE": trace}, timeout=timeout, heap="3g")
    if "TRACE-CONSUMED" not in out:
        raise ToolError("TraceSyncImpl did not consume %s: %s" % (trace, out[-2500:]))
    m = re.search(r'"LABELS",\s*\{(.*?)\}\s*>>', out, re.S)
    LABELS_SEEN.update(re.findall(r'"([a-z_.]+)"', m.group(1)) if m else [])
    return [(int(a), int(b), w) for a, b, w in re.findall(r'<<"DRIFT", (\d+), (-?\d+), "([^"]*)">>', out)]


# micro-op labels the real code executed under the controlled scheduler in this process's validations
LABELS_SEEN = set()


def all_labels():
    """Every label of the micro-op table (the CASE arms of ArenaSync!Access)."""
    src = open(os.path.join(rv.SPEC, "ArenaSync.tla")).read()
    body = src[src.index("Access(p, l) == CASE"):src.index("\\* ---------------------------------------------------------------- continuations")]
    return sorted(set(re.findall(r'p = "([a-z_.]+)"\s*->', body)))
