#!/usr/bin/env python3
"""Regenerate MANIFEST.json from the table below (properties.jsonl is never touched)."""
import json
import os
import subprocess

HERE = os.path.dirname(os.path.dirname(os.path.abspath(__file__)))
props = [json.loads(l) for l in open(os.path.join(HERE, "properties.jsonl"))]

SEQ_NOTE = ("Trusted: TLC, the hand-written ArenaSeq transcription (its fidelity is re-checked on every replayed event by "
            "TraceSeqImpl; a mismatch is reported as DRIFT), the harness's byte-to-class logging, small-scope bounds "
            "(cap 96-127, <=5-6 calls after scripted prefixes, <=4 live handles) plus seeded random histories up to cap 1024.")
SEQ_TECH = "TLA+ spec (ArenaSeq/ArenaProps) model-checked with TLC + TLC trace validation of real executions (edge-cover + random drivers)"


def seq(prop, text, ref):
    return dict(property_id=prop, engine="seq", technique=SEQ_TECH, design_ref=ref, text=text, note=SEQ_NOTE)


CLAIMED = [
    seq("C01", "Every transition of the exhaustively explored ArenaSeq model satisfies LiveDisjoint/InBounds/LiveIntact/ReservedUntouched; "
        "the same predicates are evaluated by TLC on every event of >=20k real executions (sync+unsync, Vec/anon/file, both layouts) generated "
        "from the model's state graph and at random; the real executions are also shown to be behaviours of the model.", "6 C01"),
    seq("C03", "ShapeOk / AddressAligned / zero-sized requests evaluated in every model transition and on every real event, including a sweep of "
        "the cursor over all residues mod 16 and recycled segments at all 8-residues for all 19 menu types.", "6 C03"),
    seq("C04", "Boundary-dense request sizes up to u32::MAX in reachable arena shapes, in overflow-checked and unchecked builds, each run "
        "attributable on process death; TLC checks clean error kind and that a failed call leaves cursor/discarded/remaining/free list untouched.", "6 C04"),
    seq("C05", "File-backed sync/unsync arenas are closed and reopened (map_mut, map_copy, map, map_copy_read_only; capacity same/larger/absent; with and "
        "without flush; create flag) between random histories, up to three cycles; TLC compares allocated/discarded/data_offset/minimum segment size/kind/"
        "magic version, the bytes below allocated(), the free list, and keeps checking disjointness from ranges handed out before the close; what a "
        "private (COW) or read-only session did must not reach the file.", "6 C05"),
    seq("C09", "ArenaFile.tla models the open procedures step by step and is model-checked over every file class x attempt; real open attempts on files with "
        "every identification byte altered, truncated, arbitrary or removed are judged by TraceOpen (mismatch refused, refused/read-only open leaves the "
        "bytes) and compared with the model; read-only sessions: every mutating call of the safe API must be refused without effect, each in a child run "
        "so that a crash is attributable.", "6 C09"),
    seq("C08", "ZeroOnReturn evaluated at the instant of return (memory logged before the harness writes) for fresh, recycled, rewound and "
        "top-released space; model-checked on ArenaSeq with byte-level memory.", "6 C08"),
    seq("C10", "Free-list well-formedness and the Optimistic/Pessimistic/None policy predicates evaluated in every model transition and on "
        "every real event against the snapshot taken before/after.", "6 C10"),
    seq("C11", "sync and unsync arenas driven in lock-step by the same driver; TLC compares results, extents, allocated/discarded/remaining "
        "and free-list snapshots after every call; both are also compared with the single ArenaSeq model.", "6 C11"),
    seq("C16", "Construction over reserved 0..17,63..65,4095,4096 x capacities around the prefix x 3 backends x 2 flavours; accessor table, "
        "data offset formulas, reserved immutability and cross-backend byte equality (unified layout) checked by TLC; after every reopen the accessors "
        "again (a read-only arena's capacity never exceeds the file); every other arena value (Clone) reports the same mode, options and counters.", "6 C16"),
    seq("C17", "rewind over boundary-dense positions (u32/i64 extremes, state-dependent anchors from the model) in many shapes, dev+release; "
        "clear compared with a fresh arena under random subsequent histories (bytes included).", "6 C17"),
    seq("C18", "truncate over n in 0..4*cap after random histories on Vec/anon/file, then fitting/non-fitting allocations; modelled "
        "per backend in ArenaSeq.", "6 C18"),
    seq("C20", "discarded() monotonicity, discard_freelist accounting, too-small and Freelist::None releases (no segment below the minimum segment size in force ever appears with a release) evaluated per "
        "transition/event; extreme minimum segment sizes in dev and release builds.", "6 C20"),
]

SYNC_NOTE = ("Trusted: TLC; the hand-written ArenaSync micro-op table (every access of every replayed schedule is matched against it by "
             "TraceSyncImpl: kind, location, operands, orderings, value read, CAS outcome); interleaving semantics at the granularity of the "
             "crate's atomic accesses (weak-memory-only behaviours not enumerated); small scenarios (2 threads x <=5 ops in the quick tier) "
             "from setup states produced by the real code, plus seeded random programs of 2-4 threads judged at property level only.")
SYNC_TECH = "TLA+ micro-op spec (ArenaSync) model-checked with TLC (safety + liveness) + controlled-scheduler replay of TLC schedules/counterexamples + TLC trace validation"
CLAIMED += [
    dict(property_id="C02", engine="sync", technique=SYNC_TECH, design_ref="6 C02", note=SYNC_NOTE,
         text="Every interleaving of the scenario programs is explored by TLC on the byte-exact micro-op model (LiveDisjoint, LiveInBounds, LiveIntact, "
              "NoOutOfBounds); TLC schedules and counterexamples are forced on the real sync::Arena by a controlled scheduler and every call/return "
              "is judged by TraceSyncProp, every atomic access matched against the model by TraceSyncImpl."),
    dict(property_id="C07", engine="sync", technique=SYNC_TECH, design_ref="6 C07", note=SYNC_NOTE,
         text="Termination checked by TLC under weak fairness per thread; every lasso/stuttering counterexample is replayed on the real code where a "
              "fairness-aware spin detector records non-termination; root-cause signatures separate the two listed findings from any other "
              "non-termination, which is reported as a violation."),
    dict(property_id="C12", engine="sync", technique=SYNC_TECH + "; happens-before bookkeeping (HB.tla) in the model and on traces", design_ref="6 C12", note=SYNC_NOTE,
         text="HB.tla (release sequences, acquire joins, epochs) is carried along every interleaving of every scenario (MCSyncHB, invariant NoRace, orderings of the "
              "micro-op table) and rebuilt by TLC from the orderings the code actually passes on every recorded execution (TraceHB): Meta::clear, user accesses, "
              "atomic accesses of node words and the unmapping of the memory are checked against earlier conflicting accesses; teardown scenarios give every thread its own arena value."),
    dict(property_id="C06", engine="crash", technique="TLA+ spec (MCCrash = ArenaSync + Crash in every state + reopen + probe) model-checked with TLC (safety + liveness) + crash-point enumeration on the real file (snapshot before every atomic step, reopened and probed in a child) + TLC trace validation",
         design_ref="6 C06", note=SYNC_NOTE + " Crash = process death with the page cache intact; probe non-termination = child killed by a 1 s alarm.",
         text="Crash is an action enabled in every reachable state of every scenario interleaving; after it only the probe runs on the zeroed-above-cursor memory: "
              "TLC checks cursor bounds, pre-crash live ranges intact and disjoint from probe allocations, and probe termination. On the real code the arena file is "
              "copied before every step of TLC-generated schedules, reopened with map_mut in a forked child and probed; TraceCrash judges; model counterexamples "
              "(schedule + crash index) are replayed first."),
    dict(property_id="C13", engine="handles", technique="TLA+ spec (Handles.tla) model-checked with TLC + replay of its state graph on the real code + TLC trace validation; extents via ArenaProps on the sequential core suite; concurrent teardown via ArenaSync",
         design_ref="6 C13", note=SEQ_NOTE + " The release of the backing memory is observed at the entry of Memory::unmount (hook).",
         text="Handles.tla transcribes Clone/Drop of arena values, to_owned and the Drop impls of the four handle types; every history of <= 7 lifetime calls is model-checked "
              "(refs = live arena values, memory released exactly once at zero, remove-on-drop file removed exactly then, needs-drop value dropped once) and its state graph "
              "is replayed on real sync/unsync arenas (Vec/anon/file); every release event of the sequential suite is judged (own extent once, detached releases nothing, owned = "
              "borrowed); clone/drop on different threads is model-checked and replayed under the controlled scheduler (freed once, no access after free)."),
    dict(property_id="C14", engine="small", technique="TLA+ spec (Buffer.tla) model-checked with TLC + edge-cover and random drivers on real BytesRefMut/BytesMut + TLC trace validation (TraceBuffer)",
         design_ref="6 C14", note="Trusted: TLC, dbutils::leb128 (only length/bounds/round-trip of varints are checked), std's to_*_bytes, the harness's logging of the whole arena's bytes. Scope: capacities <= 13 in the model, all 12 integer types x be/le/ne x every fill level on the code.",
         text="Buffer.tla models the write cursor (values as byte sequences, byte order = reversal); every state/transition is checked for bounds, len, stored bytes, nothing "
              "outside touched, set_len zero-fill, align_to alignment, round trips; ~1800 drivers (TLC edge cover + all methods x fill levels + random walks) run on fresh, "
              "aligned and recycled buffers of both handle kinds, flavours and backends, dev + release; TraceBuffer recomputes the expected bytes from the logged arguments."),
    dict(property_id="C15", engine="small", technique="TLA+ spec (Readers.tla, width-parametric) model-checked with TLC + reader sweeps on real arenas (dev + release) + TLC trace validation (TraceReaders)",
         design_ref="6 C15", note="Trusted: TLC, dbutils::leb128 decode fidelity, the harness's logging. usize is modelled at width 0..255 / 0..127 so that wrap-around is explorable; on the code offsets include usize::MAX-k and values around 2^32 / 2^63.",
         text="Readers.tla decides Ok iff offset + SIZE <= allocated without wrap, varint windows below allocated(), slice lengths; every reader x offset 0..cap+16 and extremes x 6 fill states "
              "runs in checked and unchecked builds; TraceReaders decodes the logged window by reversal and compares."),
    dict(property_id="C19", engine="small", technique="TLA+ spec (Checksum.tla: the page loop as actions) model-checked with TLC + recording checksummer on real arenas + TLC trace validation (TraceChecksum)",
         design_ref="6 C19", note="Trusted: TLC, crc32fast, the recording FNV-1a checksummer of the harness. Model page sizes 1, 4, 7; code page size 4096 with lengths around every page multiple.",
         text="Checksum.tla: the chunk list is an in-order tiling of [reserved, allocated) at every step and on termination; on the code a recording BuildChecksumer logs every update "
              "(offset, length) and TraceChecksum checks tiling and equality with the one-shot digest for Crc32 and an order-sensitive digest."),
]

NOT_YET = "check not built yet in this round (construction in progress; see DESIGN.md section 11)"


def main():
    commits = subprocess.check_output(["git", "-C", "/repo", "log", "--format=%h %s"]).decode().splitlines()
    hook_commits = [c.split()[0] for c in commits if c.split(" ", 1)[1].startswith("verif hooks")]
    claimed_ids = {c["property_id"] for c in CLAIMED}
    checks = []
    for c in CLAIMED:
        p = c["property_id"]
        checks.append({
            "property_id": p,
            "quick_cmd": "./bin/check %s --tier quick" % p,
            "thorough_cmd": "./bin/check %s --tier thorough" % p,
            "evidence_file": "evidence/%s.json" % p,
            "replay_cmd_template": "./bin/check replay {path}",
            "engine": c["engine"],
            "level_claimed": {"category": "model_checking", "text": c["text"], "design_ref": "DESIGN.md section " + c["design_ref"]},
            "level_note": c["note"],
            "technique": c["technique"],
        })
    m = {
        "version": 1,
        "setup_cmd": "./bin/setup",
        "hooks": {
            "guard": "al8n_rarena_verif",
            "enable": "harness/.cargo/config.toml sets rustflags = [\"--cfg\", \"al8n_rarena_verif\", \"--check-cfg\", \"cfg(al8n_rarena_verif)\"]",
            "baseline_off_cmd": "cd /repo && cargo test --workspace --no-fail-fast --offline",
            "source_commits": hook_commits,
            "add_only": True,
        },
        "engines": [
            {"name": "sync", "path": "lib/eng_sync.py", "serves_properties": ["C02", "C07", "C12"],
             "kind_free_text": "ArenaSync.tla (one action per atomic access of sync.rs, byte-exact memory) + MCSync; harness/src/conc.rs controlled scheduler; TraceSyncProp / TraceSyncImpl"},
            {"name": "small", "path": "lib/check_small.py", "serves_properties": ["C14", "C15", "C19"],
             "kind_free_text": "Buffer / Readers / Checksum.tla + MC wrappers; harness_small (rvs buf|rd|ck); TraceBuffer / TraceReaders / TraceChecksum"},
            {"name": "handles", "path": "lib/check_handles.py", "serves_properties": ["C13"],
             "kind_free_text": "Handles.tla + MCHandles; harness handles subcommand; TraceHandles; plus C13 predicates of ArenaProps (seq) and teardown scenarios (sync)"},
            {"name": "crash", "path": "lib/check_crash.py", "serves_properties": ["C06"],
             "kind_free_text": "MCCrash.tla over ArenaSync; harness conc (snapshots) + probe (forked reopen under alarm); TraceCrash"},
            {"name": "seq", "path": "lib/eng_seq.py", "serves_properties": sorted(c["property_id"] for c in CLAIMED if c["engine"] == "seq"),
             "kind_free_text": "ArenaSeq.tla (implementation-level sequential spec) + ArenaProps.tla (property predicates) model-checked by TLC (MCSeq); "
                               "harness/src/seq.rs replays TLC-generated and random drivers on real sync/unsync arenas; TraceSeqProp (verdict) and TraceSeqImpl (drift) validate the traces"},
        ],
        "checks": checks,
        "notes": "Verdicts come only from TLC trace validation of real executions (exit 1 + VIOLATION) - model counterexamples are replayed on the code first. "
                 "known_findings.json lists fixed/recorded findings. DRIFT lines are informational (exit 0).",
        "not_applicable": [{"property_id": p["id"], "reason": NOT_YET} for p in props if p["id"] not in claimed_ids],
    }
    with open(os.path.join(HERE, "MANIFEST.json"), "w") as f:
        json.dump(m, f, indent=1)
    print("manifest: %d checks, %d not yet claimed" % (len(checks), len(m["not_applicable"])))


if __name__ == "__main__":
    main()
