"""Checks for the small pure machines: C14 (buffer writers/readers), C15 (arena-level readers), C19 (checksum).

Per property: exhaustive TLC run of the small specification (spec/Buffer.tla, Readers.tla, Checksum.tla through
their MC wrappers) -> drivers (TLC edge cover + seeded generators) -> the real code under harness_small (`rvs`, dev
and release builds) logs ndjson -> TLC validates every event against spec/Trace{Buffer,Readers,Checksum}.tla ->
verdict.finish. The harness never judges; a process that dies is an event of the trace.
"""
import hashlib
import json
import os
import random
import shutil
import subprocess
import sys
import time

import rv
import verdict
from rv import ToolError, log

SMALL = os.path.join(rv.VERIF, "harness_small")
USIZE_MAX = (1 << 64) - 1
SAT = 1 << 30
# one harness process runs all drivers of a suite in a few seconds; one that takes this long hangs (a result, not a tool error)
HARNESS_TIMEOUT = int(os.environ.get("RV_SMALL_TIMEOUT", "60"))

ENGINE = {
    "C14": dict(sub="buf", module="TraceBuffer", cfg="TraceBuffer.cfg"),
    "C15": dict(sub="rd", module="TraceReaders", cfg="TraceReaders.cfg"),
    "C19": dict(sub="ck", module="TraceChecksum", cfg="TraceChecksum.cfg"),
}

INT_TYPES = [("u8", 1, False), ("i8", 1, True), ("u16", 2, False), ("i16", 2, True), ("u32", 4, False),
             ("i32", 4, True), ("u64", 8, False), ("i64", 8, True), ("usize", 8, False), ("isize", 8, True),
             ("u128", 16, False), ("i128", 16, True)]
VAR_TYPES = [t for t in INT_TYPES if t[0] in ("u16", "u32", "u64", "u128", "i16", "i32", "i64", "i128")]
RD_TYPES = [t for t in INT_TYPES if t[0] not in ("usize", "isize")]
T_MENU = [(0, 1), (1, 1), (3, 1), (5, 1), (2, 2), (6, 2), (4, 4), (12, 4), (8, 8), (24, 8), (16, 16), (32, 16)]


# --------------------------------------------------------------------------- build
_built = {}


def build_small(profile="dev"):
    """Rebuild harness_small against /repo's current working tree (hooks cfg on). Returns the binary path."""
    if profile in _built:
        return _built[profile]
    global SMALL
    if rv.ALT and not SMALL.startswith(os.path.join(rv.VERIF, "work")):
        # runs against another tree (RV_REPO): build from a rewritten copy, never from the committed crate
        import shutil
        alt = os.path.join(rv.OUT, "harness_small")
        rv.ensure_dir(alt)
        for item in ("src", ".cargo"):
            shutil.rmtree(os.path.join(alt, item), ignore_errors=True)
            shutil.copytree(os.path.join(SMALL, item), os.path.join(alt, item))
        shutil.copy(os.path.join(SMALL, "Cargo.lock"), os.path.join(alt, "Cargo.lock"))
        with open(os.path.join(SMALL, "Cargo.toml")) as f:
            toml = f.read().replace('path = "/repo/rarena-allocator"', 'path = "%s/rarena-allocator"' % os.path.realpath(rv.REPO))
        with open(os.path.join(alt, "Cargo.toml"), "w") as f:
            f.write(toml)
        SMALL = alt
    cmd = ["cargo", "build", "--offline"] + (["--release"] if profile == "release" else [])
    env = dict(os.environ, CARGO_NET_OFFLINE="true")
    env.pop("RUSTFLAGS", None)
    t0 = time.time()
    p = subprocess.run(cmd, cwd=SMALL, env=env, stdout=subprocess.PIPE, stderr=subprocess.STDOUT, text=True)
    if p.returncode != 0:
        sys.stderr.write(p.stdout[-4000:])
        raise ToolError("harness_small build failed (profile %s)" % profile)
    log("harness_small built (%s) in %.1fs" % (profile, time.time() - t0))
    b = os.path.join(SMALL, "target", "release" if profile == "release" else "debug", "rvs")
    _built[profile] = b
    return b


# --------------------------------------------------------------------------- model checking
def _set(xs):
    return "{" + ", ".join(str(x) for x in xs) + "}"


def _bools(xs):
    return "{" + ", ".join("TRUE" if x else "FALSE" for x in xs) + "}"


def mc_plan(prop, tier):
    """[(name, module, cfg text, workers)] - exhaustive configurations of the small specification."""
    deep = tier == "thorough"
    if prop == "C14":
        def cfg(variant, pres, ns, aligns, recycled, nles, maxlen, emit, inv=True):
            return ("SPECIFICATION Spec\nVIEW View\nCONSTANTS\n  Variant = \"%s\"\n  Pres = %s\n  Ns = %s\n  Aligns = %s\n"
                    "  Recycled = %s\n  NLEs = %s\n  MaxLen = %d\n  Emit = %s\n%sCHECK_DEADLOCK FALSE\n" % (
                        variant, _set(pres), _set(ns), _set(aligns), "TRUE" if recycled else "FALSE", _bools(nles),
                        maxlen, "TRUE" if emit else "FALSE",
                        "INVARIANTS LenWithinCap ShapeKept NeighboursIntact RoundTripAlgebra\n" if inv else ""))
        plan = [("buf_verify", "MCBuffer", cfg("repaired", [0, 2, 3], [0, 1, 3, 5], [4, 8], True, [True, False],
                                               3, False), 4),
                ("buf_emit", "MCBuffer", cfg("repaired", [0, 3] if not deep else [0, 2, 3], [1, 3] if not deep else [1, 3, 4],
                                             [4], False, [True], 2, True), 1)]
        if deep:
            plan.append(("buf_verify_deep", "MCBuffer", cfg("repaired", [0, 3], [2, 9], [8], True, [True], 4, False), 6))
        return plan
    if prop == "C15":
        def cfg(maxu, cap, doff):
            return ("SPECIFICATION Spec\nCONSTANTS\n  Variant = \"repaired\"\n  MaxUsize = %d\n  Cap = %d\n  DataOffset = %d\n"
                    "  CheckedSet = {TRUE, FALSE}\nINVARIANT TypeOK\nCHECK_DEADLOCK FALSE\n" % (maxu, cap, doff))
        plan = [("rd_255", "MCReaders", cfg(255, 40, 1), 4), ("rd_unify", "MCReaders", cfg(127, 60, 32), 4)]
        if deep:
            plan.append(("rd_1023", "MCReaders", cfg(1023, 70, 1), 6))
        return plan
    if prop == "C19":
        def cfg(page, maxres, maxdata):
            return ("SPECIFICATION CSpec\nCONSTANTS\n  PageSize = %d\n  MaxReserved = %d\n  MaxData = %d\n"
                    "INVARIANTS PrefixTiling DoneTiles DoneFedExactly DoneClosedForm\nPROPERTY Terminates\n"
                    "CHECK_DEADLOCK FALSE\n" % (page, maxres, maxdata))
        plan = [("ck_p4", "MCChecksum", cfg(4, 6, 13), 2), ("ck_p1", "MCChecksum", cfg(1, 2, 5), 1),
                ("ck_p7", "MCChecksum", cfg(7, 9, 22), 2)]
        if deep:
            plan.append(("ck_p64", "MCChecksum", cfg(64, 64, 193), 4))
        return plan
    raise ToolError("no small machine for %s" % prop)


def _parse_tla_json_lines(out, key):
    res = []
    for line in out.splitlines():
        line = line.strip()
        if line.startswith('"{') and ('\\"%s\\"' % key) in line:
            res.append(json.loads(line[1:-1].replace('\\"', '"').replace("\\\\", "\\")))
    return res


def run_mc(prop, tier):
    """Model-check every configuration (cached by specification hash: nothing here depends on /repo)."""
    results = []
    for (name, module, cfgtext, workers) in mc_plan(prop, tier):
        key = hashlib.sha256((rv.spec_hash() + cfgtext).encode()).hexdigest()[:20]
        cdir = rv.ensure_dir(rv.MC_CACHE)
        cfile = os.path.join(cdir, "small-%s-%s.json" % (name, key))
        if os.path.exists(cfile):
            with open(cfile) as f:
                results.append(json.load(f))
            continue
        wd = os.path.join(rv.WORK, "mc", "small-" + name)
        shutil.rmtree(wd, ignore_errors=True)
        rv.ensure_dir(wd)
        with open(os.path.join(wd, name + ".cfg"), "w") as f:
            f.write(cfgtext)
        t0 = time.time()
        rc, out = rv.run_tlc(wd, module, name + ".cfg", workers=workers, deque=False, timeout=1500, heap="6g")
        st = rv.tlc_stats(out)
        if st is None or rc != 0:
            sys.stderr.write(out[-3000:])
            raise ToolError("TLC did not verify configuration %s of %s (rc=%s)" % (name, module, rc))
        mv = _parse_tla_json_lines(out, "modelviol")
        if mv:
            raise ToolError("the repaired specification %s violates its own property predicates in configuration %s: %s"
                            % (module, name, json.dumps(mv[0])[:600]))
        res = {"name": name, "module": module, "generated": st[0], "distinct": st[1], "depth": st[2], "rc": rc,
               "wall": round(time.time() - t0, 1), "drivers": _parse_tla_json_lines(out, "drv")}
        shutil.rmtree(wd, ignore_errors=True)
        rv.dump_json_atomic(cfile, res)
        results.append(res)
    log("%s: %d MC configurations, %d distinct states, %d transitions" % (
        prop, len(results), sum(r["distinct"] for r in results), sum(r["generated"] for r in results)))
    return results


# --------------------------------------------------------------------------- values
def be_bytes(x, size, signed):
    return list(int(x).to_bytes(size, "big", signed=signed))


def boundary_values(size, signed):
    bits = 8 * size
    if signed:
        vs = [0, 1, -1, (1 << (bits - 1)) - 1, -(1 << (bits - 1)), 0x0102030405060708090a0b0c0d0e0f10 >> (128 - bits)]
    else:
        vs = [0, 1, (1 << bits) - 1, 1 << (bits - 1), 0x0102030405060708090a0b0c0d0e0f10 >> (128 - bits)]
    return vs


def rand_value(rng, size, signed):
    bits = 8 * size
    x = rng.getrandbits(bits)
    if signed and x >= 1 << (bits - 1):
        x -= 1 << bits
    return x


def pick_value(rng, size, signed):
    if rng.random() < 0.5:
        return rng.choice(boundary_values(size, signed))
    return rand_value(rng, size, signed)


def rbytes(rng, n, nonzero=False):
    return [rng.randrange(1 if nonzero else 0, 256) for _ in range(n)]


# --------------------------------------------------------------------------- C14 drivers
def buf_cfgs(rng, tier):
    """Buffer layouts: fresh / aligned / recycled space, every cursor residue, both handle kinds, both flavours."""
    caps = [0, 1, 2, 3, 4, 7, 8, 9, 16, 17] + ([5, 15, 24, 33] if tier == "thorough" else [])
    out = []
    k = 0
    for n in caps:
        for pre in ([0, 3] if tier == "quick" else [0, 1, 3, 6]):
            k += 1
            out.append(dict(source="fresh", n=n, pre=pre, owned=(k % 3 == 0)))
        for (s, a) in [(2, 2), (4, 4), (8, 8), (16, 16)]:
            for pre in ([2] if tier == "quick" else [0, 2, 5]):
                k += 1
                out.append(dict(source="aligned", n=n, pre=pre, ta=[s, a], owned=(k % 4 == 0)))
        if n > 0:
            k += 1
            out.append(dict(source="recycled", n=n, pre=3, m=max(n + 16, 40), owned=(k % 2 == 0)))
            out.append(dict(source="recycled", n=n, pre=6, m=n + 40, ta=[8, 8], owned=(k % 2 == 1)))
            out.append(dict(source="recycled", n=n, pre=1, m=n + 48, ta=[16, 16], owned=False))
    for i, c in enumerate(out):
        c["flavor"] = "unsync" if i % 2 == 0 else "sync"
        c["backend"] = ["vec", "vec", "anon", "vec", "file"][i % 5]
        c["arena_cap"] = 256
        c["kind"] = "opt" if i % 3 else "pes"
        if c["backend"] == "file":
            c["unify"] = True
    return out


def cap_of(c):
    """Capacity the generator expects (only used to shape drivers; the trace carries the real one)."""
    if c.get("ta"):
        return c["n"] + c["ta"][0]
    return c["n"]


def int_sweep(rng, c, types, apis=False):
    """Every fill level x every type x every byte order: put then get (round trip), or a refused put."""
    C = cap_of(c)
    ops = []
    for fill in range(C + 1):
        ops.append({"k": "setlen", "n": 0})
        ops.append({"k": "slice", "b": rbytes(rng, fill, True), "api": "put"})
        for (ty, size, signed) in types:
            for ord_ in (["be"] if size == 1 else ["be", "le", "ne"]):
                v = be_bytes(pick_value(rng, size, signed), size, signed)
                papis = ["put"] if size == 1 and not apis else ["put", "write", "unchecked"] if size > 1 else ["put", "unchecked"]
                api = rng.choice(papis) if apis else "put"
                ops.append({"k": "put", "ty": ty, "ord": ord_, "v": v, "api": api})
                if fill + size <= C:
                    ops.append({"k": "get", "ty": ty, "ord": ord_, "api": rng.choice(["get", "unchecked"]) if apis else "get"})
                elif rng.random() < 0.15:
                    # a get that does not follow a successful put: pops what the fill put there (restored right after)
                    ops.append({"k": "get", "ty": ty, "ord": ord_, "api": "get"})
                    ops.append({"k": "setlen", "n": 0})
                    ops.append({"k": "slice", "b": rbytes(rng, fill, True), "api": "put"})
    return ops


def slice_sweep(rng, c):
    C = cap_of(c)
    ops = []
    for fill in range(C + 1):
        for n in range(0, C - fill + 3):
            ops.append({"k": "setlen", "n": 0})
            ops.append({"k": "slice", "b": rbytes(rng, fill, True), "api": "put"})
            ops.append({"k": "slice", "b": rbytes(rng, n), "api": rng.choice(["put", "iowrite", "unchecked"])})
            if rng.random() < 0.3:
                ops.append({"k": "getslice", "n": rng.randrange(0, C + 2)})
    return ops


def setlen_sweep(rng, c):
    C = cap_of(c)
    ops = []
    for fill in range(C + 1):
        for n in range(C + 2):
            ops.append({"k": "setlen", "n": 0})
            ops.append({"k": "slice", "b": rbytes(rng, C, True), "api": "put"})   # every byte non-zero
            ops.append({"k": "setlen", "n": 0})
            ops.append({"k": "slice", "b": rbytes(rng, fill, True), "api": "put"})
            ops.append({"k": "setlen", "n": n})
    return ops


def align_sweep(rng, c):
    """align_to / put_aligned / align_to + put at every fill level for every T of the menu."""
    C = cap_of(c)
    ops = []
    for fill in range(C + 1):
        for (s, a) in T_MENU:
            mode = rng.choice(["putal", "putal", "align", "align+put"])
            ops.append({"k": "setlen", "n": fill})
            if mode == "putal":
                ops.append({"k": "putal", "s": s, "a": a, "b": rbytes(rng, s, True)})
            elif mode == "align":
                ops.append({"k": "align", "s": s, "a": a})
            else:
                ops.append({"k": "align", "s": s, "a": a})
                ops.append({"k": "putt", "s": s, "a": a, "b": rbytes(rng, s, True)})
    return ops


def varint_values(size, signed):
    bits = 8 * size
    vs = [0, 1, 127, 128, 16383, 16384, (1 << 21) - 1, 1 << 21]
    vs = [v for v in vs if v < (1 << (bits - (1 if signed else 0)))]
    if signed:
        vs += [-1, -64, -65, -(1 << (bits - 1)), (1 << (bits - 1)) - 1]
    else:
        vs += [(1 << bits) - 1, 1 << (bits - 1)]
    return vs


def varint_sweep(rng, c):
    C = cap_of(c)
    ops = []
    for (ty, size, signed) in VAR_TYPES:
        for x in varint_values(size, signed) + [rand_value(rng, size, signed) for _ in range(2)]:
            # on an empty buffer: put then the matching get
            ops.append({"k": "setlen", "n": 0})
            ops.append({"k": "putv", "ty": ty, "ord": "be", "v": be_bytes(x, size, signed),
                        "api": rng.choice(["put", "write", "unchecked"])})
            ops.append({"k": "getv", "ty": ty, "ord": "be"})
    for fill in range(C + 1):
        for (ty, size, signed) in VAR_TYPES:
            ops.append({"k": "setlen", "n": fill})
            ops.append({"k": "putv", "ty": ty, "ord": "be", "v": be_bytes(pick_value(rng, size, signed), size, signed),
                        "api": rng.choice(["put", "write"])})
            ops.append({"k": "getv", "ty": rng.choice(VAR_TYPES)[0], "ord": "be"})
    return ops


def random_walk(rng, c, n):
    C = cap_of(c)
    ops = []
    for _ in range(n):
        r = rng.random()
        if r < 0.3:
            ty, size, signed = rng.choice(INT_TYPES)
            ord_ = "be" if size == 1 else rng.choice(["be", "le", "ne"])
            ops.append({"k": "put", "ty": ty, "ord": ord_, "v": be_bytes(pick_value(rng, size, signed), size, signed),
                        "api": rng.choice(["put", "put", "write" if size > 1 else "put", "unchecked"])})
            if rng.random() < 0.5:
                ops.append({"k": "get", "ty": ty, "ord": ord_, "api": rng.choice(["get", "unchecked"])})
        elif r < 0.4:
            ty, size, signed = rng.choice(INT_TYPES)
            ops.append({"k": "get", "ty": ty, "ord": "be" if size == 1 else rng.choice(["be", "le", "ne"]), "api": "get"})
        elif r < 0.5:
            ops.append({"k": "slice", "b": rbytes(rng, rng.randrange(0, 6)), "api": rng.choice(["put", "iowrite"])})
        elif r < 0.6:
            ops.append({"k": "setlen", "n": rng.randrange(0, C + 2)})
        elif r < 0.8:
            s, a = rng.choice(T_MENU)
            k = rng.choice(["putal", "align", "putt"])
            op = {"k": k, "s": s, "a": a}
            if k != "align":
                op["b"] = rbytes(rng, s, True)
            ops.append(op)
        elif r < 0.9:
            ty, size, signed = rng.choice(VAR_TYPES)
            ops.append({"k": "putv", "ty": ty, "ord": "be", "v": be_bytes(pick_value(rng, size, signed), size, signed), "api": "put"})
        else:
            ops.append({"k": "getv", "ty": rng.choice(VAR_TYPES)[0], "ord": "be"})
    return ops


def _leb_value(enc):
    x = 0
    for i, b in enumerate(enc):
        x |= (b & 0x7F) << (7 * i)
    return x


def mc_buf_drivers(mc, rng, limit):
    """TLC edge-cover drivers of MCBuffer, on the layouts they were generated for."""
    out = []
    for r in mc:
        ds = r.get("drivers") or []
        # keep drivers that are not a prefix of another driver of the same configuration
        keyed = sorted((json.dumps(d["cfg"], sort_keys=True), json.dumps(d["drv"], sort_keys=True)[:-1]) for d in ds)
        keep = []
        for i, (ck, dk) in enumerate(keyed):
            if i + 1 < len(keyed) and keyed[i + 1][0] == ck and keyed[i + 1][1].startswith(dk + ","):
                continue
            keep.append((json.loads(ck), json.loads(dk + "]")))
        if len(keep) > limit:
            rng.shuffle(keep)
            keep = keep[:limit]
        for i, (mcfg, ops) in enumerate(keep):
            c = mcfg["c"]
            cfg = dict(source=c["src"], n=c["n"], pre=c["pre"], owned=(i % 2 == 1), flavor="unsync" if i % 2 else "sync",
                       backend="vec", arena_cap=256, kind="opt")
            if c["src"] == "aligned":
                cfg["ta"] = [c["a"], c["a"]]
            real = []
            for op in ops:
                op = dict(op)
                if op["k"] == "putv":
                    op["v"] = be_bytes(_leb_value(op.pop("enc")), 4, False)
                    op["ord"] = "be"
                if op["k"] == "getv":
                    op["ord"] = "be"
                real.append(op)
            out.append({"id": "mc:%s:%d" % (r["name"], i), "cfg": cfg, "ops": real})
    return out


def c14_drivers(tier, seed, mc):
    rng = random.Random(seed * 1000003 + 14)
    cfgs = buf_cfgs(rng, tier)
    drivers = []
    sweeps = [("int", lambda c: int_sweep(rng, c, INT_TYPES)),
              ("intapi", lambda c: int_sweep(rng, c, INT_TYPES, apis=True)),
              ("slice", lambda c: slice_sweep(rng, c)),
              ("setlen", lambda c: setlen_sweep(rng, c)),
              ("align", lambda c: align_sweep(rng, c)),
              ("varint", lambda c: varint_sweep(rng, c))]
    for i, c in enumerate(cfgs):
        # every layout gets the alignment sweep (where the layout matters) and one rotating other sweep
        drivers.append({"id": "align:%d" % i, "cfg": c, "ops": align_sweep(rng, c)})
        name, fn = sweeps[i % len(sweeps)]
        if name != "align":
            if name in ("int", "intapi") and cap_of(c) > 17 and tier == "quick":
                continue
            drivers.append({"id": "%s:%d" % (name, i), "cfg": c, "ops": fn(c)})
    # the full type x order x fill-level sweep on one layout of each kind
    for j, c in enumerate([x for x in cfgs if cap_of(x) in (17, 24)][: (6 if tier == "quick" else 16)]):
        drivers.append({"id": "intfull:%d" % j, "cfg": c, "ops": int_sweep(rng, c, INT_TYPES, apis=(j % 2 == 1))})
    for j in range(60 if tier == "quick" else 400):
        c = rng.choice(cfgs)
        drivers.append({"id": "walk:%d" % j, "cfg": c, "ops": random_walk(rng, c, 40)})
    drivers += mc_buf_drivers(mc, rng, 1500 if tier == "quick" else 8000)
    return drivers


def c14_release_subset(drivers, tier):
    keep = [d for d in drivers if d["id"].split(":")[0] in ("align", "intfull", "walk")]
    return keep if tier == "thorough" else keep[::2]


# --------------------------------------------------------------------------- C15 drivers
def offsets_for(cap, size, rng, tier):
    offs = list(range(0, cap + 17))
    ext = []
    for k in range(0, size + 2):
        ext.append(USIZE_MAX - k)
    for base in ([1 << 32, 1 << 63] if tier == "quick" else [1 << 31, 1 << 32, 1 << 62, 1 << 63]):
        ext += [base - 1, base, base + 1]
    ext += [USIZE_MAX - rng.randrange(0, 64), USIZE_MAX // 2]
    return offs, ext


def rd_op(k, ty, ord_, off):
    op = {"k": k, "ty": ty, "ord": ord_, "off": min(off, SAT)}
    if off >= SAT:
        op["offx"] = str(off)
    return op


def c15_drivers(tier, seed):
    rng = random.Random(seed * 1000003 + 15)
    drivers = []
    shapes = [dict(arena_cap=48), dict(arena_cap=80, reserved=5), dict(arena_cap=96, unify=True),
              dict(arena_cap=120, unify=True, reserved=3)]
    if tier == "thorough":
        shapes += [dict(arena_cap=64, reserved=16), dict(arena_cap=200, unify=True, reserved=64)]
    n = 0
    for sh in shapes:
        for flavor in ["unsync", "sync"]:
            for backend in (["vec", "anon", "file"] if (sh.get("unify") or tier == "thorough") else ["vec", "anon"]):
                if backend == "file" and not sh.get("unify"):
                    continue
                n += 1
                cfg = dict(sh, flavor=flavor, backend=backend, seed=rng.randrange(1, 1 << 30), kind="opt")
                cap = sh["arena_cap"]
                # fill states: empty, partly filled (random / continuation bytes at the end), full
                fills = [[], [("rand", rng.randrange(1, 12))], [("rand", 9), ("cont", 6)], [("cont", 21)],
                         [("rand", cap)], [("rand", 17), ("cont", 3), ("rand", 2), ("cont", 1)]]
                # ... and a state holding well-formed varints of every encoded length back to back (1, 2, 3, 5, 9, 10 and
                # 19 bytes: the longest encodings of the 16/32/64/128-bit types, signed ones included)
                res_ = sh.get("reserved", 0)
                doff = (((res_ + 7) // 8) * 8 + 32) if (sh.get("unify") or backend == "file") else res_ + 1
                enc = []
                for ln in [1, 2, 3, 5, 9, 10, 19]:
                    if len(enc) + ln <= cap - doff - 2:
                        enc += [0xFF] * (ln - 1) + [0x01]
                fills.append([("rand", len(enc) + 1), ("poke", (doff, enc))])
                for fi, fill in enumerate(fills):
                    ops = []
                    for (mode, sz) in fill:
                        if mode == "poke":
                            ops.append({"k": "poke", "at": sz[0], "b": sz[1]})
                            continue
                        ops.append({"k": "alloc", "n": sz, "fill": mode})
                    ops.append({"k": "lens"})
                    types = RD_TYPES if (tier == "thorough" or (n + fi) % 2 == 0) else RD_TYPES[(fi % 2)::2]
                    for (ty, size, signed) in types:
                        offs, ext = offsets_for(cap, size, rng, tier)
                        for ord_ in (["be"] if size == 1 else ["be", "le"]):
                            for off in offs:
                                ops.append(rd_op("rd", ty, ord_, off))
                    for (ty, size, signed) in VAR_TYPES:
                        if tier == "quick" and (n + fi + size) % 2:
                            continue
                        for off in range(0, cap + 17):
                            ops.append(rd_op("rdv", ty, "be", off))
                    drivers.append({"id": "sweep:%d:%d" % (n, fi), "cfg": cfg, "ops": ops})
                    # offsets near the top of usize: a call there may kill the process (the rest of that driver is
                    # then lost), so these calls travel in small drivers, one per type
                    if fi in (0, 2, 4) or tier == "thorough":
                        for (ty, size, signed) in RD_TYPES:
                            xops = [{"k": "alloc", "n": sz, "fill": mode} for (mode, sz) in fill if mode != "poke"]
                            offs, ext = offsets_for(cap, size, rng, tier)
                            for ord_ in (["be"] if size == 1 else ["be", "le"]):
                                for off in ext:
                                    xops.append(rd_op("rd", ty, ord_, off))
                            if size > 1:
                                for off in [USIZE_MAX, USIZE_MAX - 1, 1 << 63, 1 << 32]:
                                    xops.append(rd_op("rdv", ty, "be", off))
                            drivers.append({"id": "extreme:%d:%d:%s" % (n, fi, ty), "cfg": cfg, "ops": xops})
    return drivers


# --------------------------------------------------------------------------- C19 drivers
def c19_drivers(tier, seed):
    rng = random.Random(seed * 1000003 + 19)
    page = 4096
    drivers = []
    n = 0
    # reserved 0..6 x data lengths mapped from the model's 0..13 (page 4) = the initial states of MCChecksum ck_p4
    reserveds = [0, 1, 2, 3, 4, 5, 6, 7, 8, 63, 64] if tier == "quick" else [0, 1, 2, 3, 4, 5, 6, 7, 8, 9, 31, 32, 33, 63, 64]
    model_rem = {0: 0, 1: 1, 2: page // 2, 3: page - 1}
    for reserved in reserveds:
        for flavor in ["unsync", "sync"]:
            for (backend, unify) in [("vec", False), ("vec", True), ("anon", False), ("file", True)]:
                n += 1
                cfg = dict(flavor=flavor, backend=backend, unify=unify, reserved=reserved, arena_cap=3 * page + reserved + 200,
                           seed=rng.randrange(1, 1 << 30), kind="opt")
                # data lengths (allocated - reserved) to visit: around every page multiple, plus random ones
                targets = set()
                for m in (1, 2, 3):
                    for d in (-2, -1, 0, 1, 2):
                        targets.add(m * page + d)
                        # ... and allocated() itself (prefix included) around the page multiples
                        if m * page - reserved + d > 0:
                            targets.add(m * page - reserved + d)
                for dm in range(0, 14):
                    targets.add((dm // 4) * page + model_rem[dm % 4])
                for _ in range(8 if tier == "quick" else 40):
                    targets.add(rng.randrange(1, 3 * page + 2))
                targets = sorted(t for t in targets if t <= 3 * page + 1)
                ops = [{"k": "cksum"}]
                # data_offset: 1 byte (plain) or the 8-aligned header (unified) after the reserved prefix
                doff = (((reserved + 7) // 8) * 8 + 8 + 24) if unify else reserved + 1
                cur = doff - reserved
                for t in targets:
                    if t <= cur:
                        continue
                    ops.append({"k": "alloc", "n": t - cur})
                    ops.append({"k": "cksum"})
                    cur = t
                drivers.append({"id": "ck:%d" % n, "cfg": cfg, "ops": ops})
    return drivers


# --------------------------------------------------------------------------- running the harness
def run_harness(binary, sub, drivers, tag):
    """Run the drivers; a process that dies is recorded as a `died` result of the call it was in, and the run
    continues with the next driver. Returns (trace file, number of deaths)."""
    wd = rv.ensure_dir(os.path.join(rv.WORK, "small", tag))
    shutil.rmtree(wd, ignore_errors=True)
    rv.ensure_dir(wd)
    dfile = os.path.join(wd, "drivers.ndjson")
    tfile = os.path.join(wd, "trace.ndjson")
    rv.write_ndjson(dfile, drivers)
    index = {json.dumps(d["id"]): i for i, d in enumerate(drivers)}
    skip = 0
    died = 0
    def no_core():
        # no core files; a run that hangs (the crate only ever busy-waits) is stopped by its own CPU time, so that a loaded
        # machine cannot turn a slow run into a "hang"; the wall-clock limit is only a backstop
        import resource
        resource.setrlimit(resource.RLIMIT_CORE, (0, 0))
        resource.setrlimit(resource.RLIMIT_CPU, (HARNESS_TIMEOUT, HARNESS_TIMEOUT + 5))
    while skip < len(drivers):
        start = os.path.getsize(tfile) if os.path.exists(tfile) else 0
        try:
            p = subprocess.run([binary, sub, dfile, tfile, os.path.join(wd, "files"), str(skip)], stdout=subprocess.PIPE,
                               stderr=subprocess.STDOUT, text=True, timeout=HARNESS_TIMEOUT * 10, preexec_fn=no_core)
            rc = -999 if p.returncode in (-24, -9) else p.returncode   # SIGXCPU (then SIGKILL): CPU limit reached
        except subprocess.TimeoutExpired:
            rc = -999
        if rc == 0:
            break
        died += 1
        if died > len(drivers) + 5:
            raise ToolError("harness %s keeps dying (rc=%s)" % (sub, rc))
        # only what this process wrote is looked at; a torn last line is not an event
        with open(tfile, "r+b") as f:
            f.seek(start)
            data = f.read()
            if not data.endswith(b"\n"):
                data = data[: data.rfind(b"\n") + 1]
                f.truncate(start + len(data))
        cur, nops, ended = None, 0, True
        for ln in data.decode().splitlines():
            if '"ev":"reset"' in ln:
                cur, nops, ended = json.loads(ln)["id"], 0, False
            elif '"ev":"op"' in ln:
                nops += 1
            elif '"ev":"end"' in ln:
                ended = True
        idx = index.get(json.dumps(cur), skip - 1) if cur is not None else skip - 1
        extra = []
        how = {"k": "died", "rc": rc, "how": "timeout" if rc == -999 else "signal"}
        if idx < skip or ended:
            # died before the next driver reported its buffer/arena (set-up): that driver yields no events
            nxt = max(idx + 1, skip)
            if nxt < len(drivers):
                extra.append({"ev": "reset", "id": drivers[nxt]["id"], "cfg": drivers[nxt]["cfg"], "ok": False,
                              "err": "process died in set-up rc=%s" % rc})
            skip = nxt + 1
        elif nops >= len(drivers[idx]["ops"]):
            # every call returned; the process died (or hung) while the handles and the arena were dropped
            extra.append({"ev": "op", "id": drivers[idx]["id"], "i": nops + 1, "op": {"k": "teardown"}, "res": how})
            skip = idx + 1
        else:
            d = drivers[idx]
            extra.append({"ev": "op", "id": d["id"], "i": nops + 1, "op": d["ops"][nops], "res": how})
            skip = idx + 1
        with open(tfile, "ab") as f:
            for e in extra:
                f.write((json.dumps(e, separators=(",", ":")) + "\n").encode())
    if not os.path.exists(tfile):
        raise ToolError("harness %s produced no trace" % sub)
    return tfile, died


# --------------------------------------------------------------------------- signatures
C14_FAMILY = {"put": "put_int", "slice": "put_slice", "getslice": "get_slice", "setlen": "set_len", "align": "align_to",
              "putt": "put", "putal": "put_aligned", "putv": "put_varint", "getv": "get_varint"}
C14_CLAUSE = {"OkOnlyInBounds": "bounds", "StoresValue": "bounds", "PointerInside": "bounds", "FailsOnlyWhenFull": "bounds",
              "FailsOnlyWhenShort": "bounds", "LenWithinCapacity": "len", "AdvancesLen": "len", "LenAtPointer": "len",
              "FailLeavesLen": "len", "GetShrinksLen": "len", "SetLenSetsLen": "len", "RoundTrip": "roundtrip",
              "GetDecodes": "roundtrip", "VarintRoundTrip": "roundtrip", "PointerAligned": "align",
              "OutsideUntouched": "outside-touched"}


def signature(prop, v):
    op = v.get("op") or {}
    res = v.get("res") or {}
    k = op.get("k", "?")
    if prop == "C14":
        fam = C14_FAMILY.get(k, k)
        if k == "get":
            fam = "get_int_" + op.get("ord", "?")
        return "C14:%s:%s" % (fam, C14_CLAUSE.get(v["pred"], v["pred"]))
    if prop == "C15":
        call = {"rd": "get_fixed", "rdv": "get_varint", "lens": "slices"}.get(k, k)
        off = op.get("off", 0)
        anchor = "wraps" if off >= SAT else "in-arena"
        outcome = {"panic": "panic", "died": "signal"}.get(res.get("k"), "wrong-result")
        build = "checked" if v.get("profile") == "dev" else "unchecked"
        return "C15:%s(%s):%s:%s" % (call, anchor, outcome, build)
    return "%s:%s" % (prop, v["pred"])


# --------------------------------------------------------------------------- one suite = drivers on one build
def run_suite(prop, name, drivers, profile, tier, seed):
    """Replay the drivers on the real code and validate the trace. Cached per source hash of /repo and /verif."""
    e = ENGINE[prop]
    dkey = hashlib.sha256(json.dumps(drivers, sort_keys=True).encode()).hexdigest()
    key = hashlib.sha256(("%s|%s|%s|%s|%s|%s" % (rv.repo_hash(), small_hash(), prop, name, profile, dkey)).encode()).hexdigest()[:24]
    cdir = rv.ensure_dir(os.path.join(rv.WORK, "suite_cache"))
    cfile = os.path.join(cdir, "small-%s-%s-%s.json" % (prop, name, key))
    if os.path.exists(cfile):
        with open(cfile) as f:
            log("suite %s/%s: cached result" % (prop, name))
            return json.load(f)
    binary = build_small(profile)
    tag = "%s-%s-%s" % (prop, name, profile)
    t0 = time.time()
    tfile, died = run_harness(binary, e["sub"], drivers, tag)
    t_h = time.time() - t0
    t0 = time.time()
    val = rv.validate_trace(tfile, e["module"], e["cfg"], "small-" + tag)
    t_v = time.time() - t0
    lines = val["lines"]
    by_id = {json.dumps(d["id"]): d for d in drivers}
    viol, drift = [], []
    for (p, pred, gline, _a) in val["viol"]:
        reset, ev = rv.locate(lines, gline)
        did = reset["id"] if reset else None
        rec = {"prop": p, "pred": pred, "driver": did, "i": ev.get("i", 0), "arena": 0, "profile": profile,
               "op": ev.get("op"), "res": ev.get("res")}
        viol.append(rec)
    for (gline, _a, what) in val["drift"]:
        reset, ev = rv.locate(lines, gline)
        drift.append({"what": what, "driver": reset["id"] if reset else None, "i": ev.get("i", 0), "op": ev.get("op")})
    stats = trace_stats(prop, lines)
    # keep the driver of the first violation of every signature (what a replay file needs)
    vd = {}
    seen_sig = set()
    for v in viol:
        sig = signature(prop, v) if v["prop"] == prop else v["prop"]
        if sig in seen_sig:
            continue
        seen_sig.add(sig)
        vd[json.dumps(v["driver"])] = by_id.get(json.dumps(v["driver"]))
    viol.sort(key=lambda v: 0 if json.dumps(v["driver"]) in vd else 1)
    res = {"suite": name, "profile": profile, "drivers": len(drivers), "events": val["events"], "viol": viol,
           "drift": drift, "stats": stats, "died": died, "t_harness": round(t_h, 1), "t_validate": round(t_v, 1),
           "samples": [{"id": d["id"], "cfg": d["cfg"], "ops_total": len(d["ops"]), "first_ops": d["ops"][:6]}
                       for d in (drivers[0], drivers[len(drivers) // 2])], "viol_drivers": vd}
    log("suite %s/%s (%s): %d drivers, %d events, %d VIOL, %d DRIFT, %d process death(s), harness %.1fs, validation %.1fs" % (
        prop, name, profile, len(drivers), val["events"], len(viol), len(drift), died, t_h, t_v))
    rv.dump_json_atomic(cfile, res)
    return res


def small_hash():
    files = rv.walk(rv.SPEC, {".tla", ".cfg"}) + rv.walk(os.path.join(SMALL, "src"), {".rs"}) + \
        [os.path.join(SMALL, "Cargo.toml"), os.path.join(rv.VERIF, "lib", "check_small.py"),
         os.path.join(rv.VERIF, "lib", "rv.py")]
    return rv.sha_files(files)


def trace_stats(prop, lines):
    """Counts used for the coverage record (what was exercised, by kind)."""
    st = {"events": 0, "resets": 0, "setup_failed": 0}
    classes = set()
    for ln in lines:
        if '"ev":"reset"' in ln:
            st["resets"] += 1
            if '"ok":false' in ln:
                st["setup_failed"] += 1
            continue
        e = json.loads(ln)
        if e.get("ev") != "op":
            continue
        st["events"] += 1
        op, res = e.get("op") or {}, e.get("res") or {}
        k = "%s:%s" % (op.get("k"), res.get("k"))
        st[k] = st.get(k, 0) + 1
        if prop == "C14":
            cap = len(e.get("buf") or [])
            ln_ = e.get("len", 0)
            fillc = "empty" if ln_ == 0 else "full" if ln_ >= cap else "part"
            classes.add((op.get("k"), op.get("ty"), op.get("ord"), op.get("api"), op.get("s"), op.get("a"), res.get("k"), fillc))
        elif prop == "C15":
            off = op.get("off", 0)
            al = e.get("alloc", 0)
            size = {"u8": 1, "i8": 1, "u16": 2, "i16": 2, "u32": 4, "i32": 4, "u64": 8, "i64": 8}.get(op.get("ty"), 16)
            rel = "below" if off + size <= al else "straddles" if off < al else "at" if off == al else "huge" if off >= SAT else "above"
            classes.add((op.get("k"), op.get("ty"), op.get("ord"), res.get("k"), rel))
        else:
            if op.get("k") == "cksum":
                total = e.get("alloc", 0) - e.get("reserved", 0)
                classes.add((total // 4096, total % 4096 in (0, 1, 4095), len(e.get("chunks") or [])))
    st["classes"] = len(classes)
    return st


# --------------------------------------------------------------------------- the checks
RULES = {
    "C14": "distinct (method, type, byte order, api variant, T, result kind, fill class) combinations executed on real "
           "buffers; every event compared with the bytes/len/result recomputed by TraceBuffer from the logged arguments",
    "C15": "distinct (reader, type, byte order, result kind, position of the offset relative to allocated()) combinations "
           "executed; every event compared with the decode of the logged memory window by TraceReaders",
    "C19": "distinct (full pages, remainder at/next to a page boundary, number of chunks) shapes of checksum() calls; "
           "each call: chunk tiling + Crc32 and streaming digests against the one-shot references by TraceChecksum",
}


def suites_for(prop, tier, seed, mc):
    if prop == "C14":
        ds = c14_drivers(tier, seed, mc)
        return [("main", ds, "dev"), ("main", c14_release_subset(ds, tier), "release")]
    if prop == "C15":
        ds = c15_drivers(tier, seed)
        return [("main", ds, "dev"), ("main", ds, "release")]
    ds = c19_drivers(tier, seed)
    return [("main", ds, "dev")] + ([("main", ds[::3], "release")] if tier == "thorough" else [])


def run(prop, tier, seed):
    t0 = time.time()
    if prop not in ENGINE:
        raise ToolError("check_small does not decide %s" % prop)
    mc = run_mc(prop, tier)
    results = []
    for (name, drivers, profile) in suites_for(prop, tier, seed, mc):
        results.append(run_suite(prop, name, drivers, profile, tier, seed))
    viol, drift = [], []
    events = drivers_n = 0
    stats_total = {}
    for r in results:
        events += r["events"]
        drivers_n += r["drivers"]
        for k, v in r["stats"].items():
            stats_total[k] = (max if k == "classes" else (lambda a, b: a + b))(stats_total.get(k, 0), v)
        for v in r["viol"]:
            if v["prop"] == prop:
                v = dict(v)
                v["sig"] = signature(prop, v)
                v["driver_obj"] = (r.get("viol_drivers") or {}).get(json.dumps(v["driver"]))
                viol.append(v)
        drift += r["drift"]
    if stats_total.get("setup_failed", 0) > drivers_n // 10:
        raise ToolError("%d of %d drivers could not set up their arena/buffer" % (stats_total["setup_failed"], drivers_n))
    coverage = {
        "states": sum(r["distinct"] for r in mc),
        "transitions": sum(r["generated"] for r in mc),
        "traces_validated_against_impl": drivers_n,
        "samples": [{"suite": r["suite"], "profile": r["profile"], "drivers": r["samples"]} for r in results][:3],
        "evaluations": events,
        "distinct_nontrivial": stats_total.get("classes", 0),
        "rule": "every transition of %d exhaustive TLC configurations of the small specification evaluated the property "
                "predicates; real executions: %s" % (len(mc), RULES[prop]),
        "exhaustive": False,
        "mc_configurations": [{"name": r["name"], "module": r["module"], "states": r["distinct"], "transitions": r["generated"],
                               "depth": r["depth"], "drivers_emitted": len(r.get("drivers") or [])} for r in mc],
        "suites": [{"suite": r["suite"], "profile": r["profile"], "drivers": r["drivers"], "events": r["events"],
                    "process_deaths": r["died"], "violation_events": len([v for v in r["viol"] if v["prop"] == prop]),
                    "drift_events": len(r["drift"])} for r in results],
        "trace_stats": {k: v for k, v in stats_total.items() if k in ("events", "resets", "setup_failed", "classes")},
    }
    assumptions = {
        "C14": ["LEB128 encode/decode fidelity belongs to dbutils/const-varint: the specification checks lengths, bounds and round trip only",
                "put::<T> is called only when its documented precondition holds (position aligned for T)",
                "the *_unchecked variants are called only when their documented precondition (enough room / bytes) holds",
                "buffers of capacity <= 49 bytes in arenas of 256 bytes; exhaustive model scope: capacity <= 13, <= 4 calls"],
        "C15": ["offsets >= 2^30 are saturated in traces (every arena is smaller than 2^30 bytes); the exact offset is passed to the code",
                "the value of a varint is compared with the varint library's own decode of the window clipped at allocated(); "
                "the consumed length is recomputed independently (first byte below 128)",
                "width-parametric model (usize = 0..255 / 0..127 / 0..1023) stands for the 64-bit arithmetic"],
        "C19": ["page size is the one of the machine (4096): the code offers no way to set it; the model covers page sizes 1, 4, 7(, 64)",
                "the second checksummer is a streaming FNV-1a whose reference is its one-shot digest of allocated_memory()[reserved..]"],
    }[prop]
    return verdict.finish(prop, tier, seed, t0, coverage, viol, drift, assumptions=assumptions,
                          replay_payload={"engine": "small", "tier": tier, "seed": seed})


def replay(payload):
    """Re-run one recorded driver on the real code and re-validate it."""
    d = payload.get("driver")
    if d is None:
        raise ToolError("replay file has no driver")
    prop = payload["property"]
    prof = (payload.get("violation") or {}).get("profile") or "dev"
    r = run_suite(prop, "replay", [d], prof, "quick", 0)
    hits = [v for v in r["viol"] if v["prop"] == prop]
    for v in hits[:20]:
        print("VIOL %s %s op#%s %s -> %s" % (v["prop"], v["pred"], v["i"], json.dumps(v["op"])[:200], json.dumps(v["res"])[:120]))
    print("replay: %d violation event(s) of %s reproduced" % (len(hits), prop))
    return 1 if hits else 0


# --------------------------------------------------------------------------- self-test of the binding
def selftest():
    """(a) the original defects are visible in the *model* (Variant = "orig" makes TLC print property violations);
    (b) corrupting one logged field of a recorded real trace makes the trace specification report it."""
    ok = True
    # (a) model
    for (name, module, cfgtext, expect) in [
        ("self_buf_orig", "MCBuffer",
         "SPECIFICATION Spec\nVIEW View\nCONSTANTS\n  Variant = \"orig\"\n  Pres = {0, 2, 3}\n  Ns = {0, 1, 3, 5}\n  Aligns = {4, 8}\n"
         "  Recycled = TRUE\n  NLEs = {TRUE}\n  MaxLen = 2\n  Emit = FALSE\nCHECK_DEADLOCK FALSE\n",
         {"GetDecodes", "RoundTrip", "PointerAligned", "OutsideUntouched", "LenWithinCapacity"}),
        ("self_rd_orig", "MCReaders",
         "SPECIFICATION Spec\nCONSTANTS\n  Variant = \"orig\"\n  MaxUsize = 255\n  Cap = 40\n  DataOffset = 1\n"
         "  CheckedSet = {TRUE, FALSE}\nCHECK_DEADLOCK FALSE\n",
         {"NoPanic", "OkOnlyBelowAllocated", "NeverTouchesAtOrAboveAllocated"}),
    ]:
        wd = os.path.join(rv.WORK, "mc", "small-" + name)
        shutil.rmtree(wd, ignore_errors=True)
        rv.ensure_dir(wd)
        with open(os.path.join(wd, name + ".cfg"), "w") as f:
            f.write(cfgtext)
        rc, out = rv.run_tlc(wd, module, name + ".cfg", workers=4, deque=False, timeout=600, heap="4g")
        seen = set()
        for j in _parse_tla_json_lines(out, "modelviol"):
            for pp in j["modelviol"]:
                seen.add(pp[1])
        good = expect <= seen
        ok = ok and good
        print("selftest model %s Variant=orig: predicates violated in the model: %s -> %s" % (
            module, sorted(seen), "ok" if good else "MISSING %s" % sorted(expect - seen)))
    # (b) field corruption on real traces (quick drivers, dev build)
    cases = {
        "C14": [("put", lambda e: e["op"]["k"] == "put" and e["res"]["k"] == "ok" and e["len"] > 0,
                 lambda e: e.__setitem__("len", e["len"] - 1), "AdvancesLen"),
                ("get", lambda e: e["op"]["k"] == "get" and e["res"]["k"] == "ok" and len(e["res"]["v"]) > 1 and e["res"]["v"][0] != e["res"]["v"][-1],
                 lambda e: e["res"].__setitem__("v", e["res"]["v"][::-1]), "GetDecodes"),
                ("out", lambda e: e["op"]["k"] == "putal" and e["res"]["k"] == "ok",
                 lambda e: e["out"][-1].__setitem__(2, 77), "OutsideUntouched")],
        "C15": [("rd", lambda e: e["op"]["k"] == "rd" and e["res"]["k"] == "ok" and len(e["win"]) > 1 and e["win"][0] != e["win"][-1],
                 lambda e: e["win"].reverse(), "ValueDecoded"),
                ("oob", lambda e: e["op"]["k"] == "rd" and e["res"]["k"] == "oob",
                 lambda e: e.__setitem__("alloc", e["cap"] + 64), "OutOfBoundsOnlyWhenNotBelowAllocated"),
                ("lens", lambda e: e["op"]["k"] == "lens", lambda e: e["res"].__setitem__("data", e["res"]["data"] + 1), "DataLen")],
        "C19": [("digest", lambda e: e["op"]["k"] == "cksum" and len(e.get("chunks", [])) > 1,
                 lambda e: e["res"].__setitem__("crc", "0" + e["res"]["crc"][1:] if e["res"]["crc"][0] != "0" else "1" + e["res"]["crc"][1:]),
                 "Crc32EqualsOneShot"),
                ("chunk", lambda e: e["op"]["k"] == "cksum" and len(e.get("chunks", [])) > 1,
                 lambda e: e["chunks"][1].__setitem__(0, e["chunks"][1][0] + 1), "ChunksTileAllocatedAfterReserved")],
    }
    for prop, cs_ in cases.items():
        e_ = ENGINE[prop]
        mc = []
        if prop == "C14":
            alld = c14_drivers("quick", 1, mc)
            drivers = [d for d in alld if d["id"].split(":")[0] == "align"][:8] + [d for d in alld if d["id"].split(":")[0] == "intfull"][:1]
        elif prop == "C15":
            drivers = [d for d in c15_drivers("quick", 1) if d["id"].startswith("sweep:1:")][:4]
        else:
            drivers = c19_drivers("quick", 1)[:2]
        tfile, _ = run_harness(build_small("dev"), e_["sub"], drivers, "selftest-" + prop)
        with open(tfile) as f:
            lines = f.readlines()
        base = rv.validate_trace(tfile, e_["module"], e_["cfg"], "selftest-%s-base" % prop, parts=2)
        print("selftest %s: recorded trace of %d events accepted (%d VIOL)" % (prop, base["events"], len(base["viol"])))
        ok = ok and not base["viol"]
        for (what, sel, mut, pred) in cs_:
            idx = next((i for i, ln in enumerate(lines) if '"ev":"op"' in ln and sel(json.loads(ln))), None)
            if idx is None:
                print("selftest %s/%s: no event to corrupt" % (prop, what))
                ok = False
                continue
            ev = json.loads(lines[idx])
            mut(ev)
            bad = list(lines)
            bad[idx] = json.dumps(ev, separators=(",", ":")) + "\n"
            cf = os.path.join(os.path.dirname(tfile), "corrupt-%s.ndjson" % what)
            with open(cf, "w") as f:
                f.writelines(bad)
            r = rv.validate_trace(cf, e_["module"], e_["cfg"], "selftest-%s-%s" % (prop, what), parts=2)
            hit = [v for v in r["viol"] if v[2] == idx + 1 and v[1] == pred]
            print("selftest %s: corrupted `%s` at line %d -> %s" % (
                prop, what, idx + 1, "reported: " + ", ".join(sorted({v[1] for v in r["viol"] if v[2] == idx + 1})) if hit else "NOT REPORTED"))
            ok = ok and bool(hit)
    print("selftest: %s" % ("PASS" if ok else "FAIL"))
    return 0 if ok else 2
