"""Core orchestration for the rarena verification machinery.

Everything here only *runs tools* (cargo, the harness, TLC) and moves files around; verdicts come from TLC:
 - exhaustive model checking of the specifications (spec/*.tla), and
 - trace validation of real executions against the property-level and implementation-level trace specs.
"""
import hashlib
import json
import os
import re
import shutil
import subprocess
import sys
import time
from concurrent.futures import ThreadPoolExecutor

VERIF = os.path.dirname(os.path.dirname(os.path.abspath(__file__)))
REPO = os.environ.get("RV_REPO", "/repo")
WORK = os.path.join(VERIF, "work")
MC_CACHE = os.path.join(VERIF, "work", "mc_cache")   # keyed by spec hash: shared by all runs
SPEC = os.path.join(VERIF, "spec")
HARNESS = os.path.join(VERIF, "harness")
# RV_REPO=<other tree> runs the same checks against a scratch copy of the repository (seeded changes): the harness is
# built from a rewritten copy under work/, evidence and replays go to work/alt/ (never to the committed directories)
ALT = os.path.realpath(REPO) != "/repo"
OUT = os.path.join(VERIF, "work", "alt", os.path.basename(os.path.realpath(REPO))) if ALT else VERIF
if ALT:
    WORK = os.path.join(OUT, "w")   # scratch of runs against another tree never collides with runs against /repo
TLC_JAR = "/opt/veriftools/tla/tla2tools.jar"
NPROC = int(os.environ.get("RV_NPROC", "12"))


class ToolError(Exception):
    """The machinery (not the code under test) failed: exit status 2."""


def log(*a):
    print("[rv]", *a, file=sys.stderr, flush=True)


def dump_json_atomic(path, obj):
    """Cache files are shared by concurrent runs (other properties, other trees): never expose a half-written file."""
    tmp = "%s.%d.tmp" % (path, os.getpid())
    with open(tmp, "w") as f:
        json.dump(obj, f)
    os.replace(tmp, path)


def ensure_dir(p):
    os.makedirs(p, exist_ok=True)
    return p


def sha_files(paths):
    h = hashlib.sha256()
    for p in sorted(paths):
        h.update(p.encode())
        try:
            with open(p, "rb") as f:
                h.update(f.read())
        except OSError:
            h.update(b"<missing>")
    return h.hexdigest()


def walk(root, exts=None, skip=("target", "work", ".git", "__pycache__")):
    out = []
    for d, dirs, files in os.walk(root):
        dirs[:] = [x for x in dirs if x not in skip and not x.startswith("target")]
        for f in files:
            if exts is None or os.path.splitext(f)[1] in exts:
                out.append(os.path.join(d, f))
    return out


def repo_hash():
    files = walk(os.path.join(REPO, "rarena-allocator", "src"), {".rs"})
    files += [os.path.join(REPO, "rarena-allocator", "Cargo.toml"), os.path.join(REPO, "Cargo.toml"),
              os.path.join(REPO, "Cargo.lock")]
    return sha_files(files)


def verif_hash():
    files = walk(SPEC, {".tla", ".cfg"}) + walk(os.path.join(HARNESS, "src"), {".rs"}) + \
        walk(os.path.join(VERIF, "lib"), {".py"}) + [os.path.join(HARNESS, "Cargo.toml")]
    return sha_files(files)


def spec_hash(extra=""):
    h = sha_files(walk(SPEC, {".tla", ".cfg"}))
    return hashlib.sha256((h + extra).encode()).hexdigest()


# --------------------------------------------------------------------------- harness build
_built = {}


def build_harness(profile="dev"):
    """Rebuild the harness against /repo's current working tree (hooks on). Returns the binary path."""
    if profile in _built:
        return _built[profile]
    global HARNESS
    if ALT and not HARNESS.startswith(os.path.join(VERIF, "work")):
        alt = os.path.join(VERIF, "work", "alt", os.path.basename(os.path.realpath(REPO)), "harness")
        ensure_dir(alt)
        for item in ("src", ".cargo"):
            shutil.rmtree(os.path.join(alt, item), ignore_errors=True)
            shutil.copytree(os.path.join(HARNESS, item), os.path.join(alt, item))
        shutil.copy(os.path.join(HARNESS, "Cargo.lock"), os.path.join(alt, "Cargo.lock"))
        with open(os.path.join(HARNESS, "Cargo.toml")) as f:
            toml = f.read().replace('path = "/repo/rarena-allocator"', 'path = "%s/rarena-allocator"' % os.path.realpath(REPO))
        with open(os.path.join(alt, "Cargo.toml"), "w") as f:
            f.write(toml)
        HARNESS = alt
    lock_src = os.path.join(REPO, "Cargo.lock")
    lock_dst = os.path.join(HARNESS, "Cargo.lock")
    if not os.path.exists(lock_dst) and os.path.exists(lock_src):
        shutil.copy(lock_src, lock_dst)
    cmd = ["cargo", "build", "--offline"]
    if profile == "release":
        cmd.append("--release")
    t0 = time.time()
    env = dict(os.environ, CARGO_NET_OFFLINE="true")
    env.pop("RUSTFLAGS", None)
    p = subprocess.run(cmd, cwd=HARNESS, env=env, stdout=subprocess.PIPE, stderr=subprocess.STDOUT, text=True)
    if p.returncode != 0:
        sys.stderr.write(p.stdout[-4000:])
        raise ToolError("harness build failed (profile %s)" % profile)
    log("harness built (%s) in %.1fs" % (profile, time.time() - t0))
    b = os.path.join(HARNESS, "target", "release" if profile == "release" else "debug", "rvh")
    _built[profile] = b
    return b


# --------------------------------------------------------------------------- TLC
def run_tlc(workdir, module, cfg, workers=1, env=None, timeout=900, deque=True, heap=None, extra=None):
    """Run TLC in workdir (spec/*.tla are copied there). Returns (returncode, output)."""
    ensure_dir(workdir)
    for f in os.listdir(SPEC):
        if f.endswith(".tla"):
            shutil.copy(os.path.join(SPEC, f), os.path.join(workdir, f))
    e = dict(os.environ)
    jopts = "-Xss1g"
    if deque:
        jopts += " -Dtlc2.tool.queue.IStateQueue=StateDeque"
    e["JAVA_TOOL_OPTIONS"] = jopts
    if env:
        e.update(env)
    md = os.path.join(workdir, "md-%s-%d" % (module, os.getpid()))
    cmd = ["java", "-XX:+UseParallelGC"]
    if heap:
        cmd.append("-Xmx" + heap)
    cmd += ["-cp", TLC_JAR + ":/opt/veriftools/tla/CommunityModules-deps.jar", "tlc2.TLC", "-workers", str(workers),
            "-metadir", md, "-cleanup", "-noGenerateSpecTE", "-config", cfg, module]
    if extra:
        cmd += extra
    try:
        p = subprocess.run(cmd, cwd=workdir, env=e, stdout=subprocess.PIPE, stderr=subprocess.STDOUT, text=True,
                           timeout=timeout)
        rc, out = p.returncode, p.stdout
    except subprocess.TimeoutExpired as ex:
        rc, out = 124, (ex.stdout.decode() if isinstance(ex.stdout, bytes) else (ex.stdout or "")) + "\nTIMEOUT"
    shutil.rmtree(md, ignore_errors=True)
    return rc, out


def tlc_stats(out):
    """(generated, distinct, depth) from TLC's final summary."""
    m = re.search(r"(\d+) states generated, (\d+) distinct states found", out)
    d = re.search(r"depth of the complete state graph search is (\d+)", out)
    if not m:
        return None
    return int(m.group(1)), int(m.group(2)), int(d.group(1)) if d else 0


def tlc_progress(out):
    """(generated, distinct) of the last progress report of a run that was stopped by its time limit."""
    ms = re.findall(r"Progress\(\d+\)[^\n]*?([\d,]+) states generated[^\n]*?([\d,]+) distinct states found", out)
    if not ms:
        return None
    return int(ms[-1][0].replace(",", "")), int(ms[-1][1].replace(",", ""))


def _tla_unescape(s):
    return s.replace('\\"', '"').replace("\\\\", "\\")


def parse_drv(out):
    """Driver lines printed by the MC modules: "{\"drv\":[...]}" (a TLA+ string, one per line)."""
    drvs = []
    for line in out.splitlines():
        line = line.strip()
        if line.startswith('"{\\"drv\\"'):
            drvs.append(json.loads(_tla_unescape(line[1:-1]))["drv"])
    return drvs


def parse_modelviol(out):
    """Histories in which the model itself violates a property predicate: [(set of (prop,pred), history)]."""
    res = []
    for line in out.splitlines():
        line = line.strip()
        if line.startswith('"{\\"modelviol\\"') or line.startswith('"{\\"history\\"'):
            j = json.loads(_tla_unescape(line[1:-1]))
            res.append(([tuple(x) for x in j["modelviol"]], j["history"]))
    return res


def prefix_maximal(drivers):
    """Drop drivers that are proper prefixes of other drivers (the longer one replays the same steps)."""
    keys = sorted(json.dumps(d, sort_keys=True)[:-1] for d in drivers)  # strip trailing ']' so prefixes compare
    out = []
    for i, k in enumerate(keys):
        if i + 1 < len(keys) and keys[i + 1].startswith(k + ","):
            continue
        if i + 1 < len(keys) and keys[i + 1] == k:
            continue
        out.append(json.loads(k + "]"))
    return out


# --------------------------------------------------------------------------- trace validation
def split_trace(path, parts, outdir, boundary='"ev":"reset"'):
    """Split an ndjson trace at reset events into <= parts files; returns [(file, [(first_line, driver_id)])]."""
    ensure_dir(outdir)
    with open(path) as f:
        lines = f.readlines()
    starts = [i for i, l in enumerate(lines) if boundary in l]
    if not starts or starts[0] != 0:
        starts = [0] + starts
    total = len(lines)
    target = max(1, total // parts + 1)
    chunks = []
    cur_start = 0
    for s in starts[1:] + [total]:
        if s - cur_start >= target or s == total:
            if s > cur_start:
                chunks.append((cur_start, s))
            cur_start = s
    files = []
    for k, (a, b) in enumerate(chunks):
        fn = os.path.join(outdir, "part%03d.ndjson" % k)
        with open(fn, "w") as f:
            f.writelines(lines[a:b])
        files.append((fn, a))
    return files, lines


VIOL_RE = re.compile(r'<<"VIOL", "([A-Z0-9]+)", "([A-Za-z0-9_]+)", (\d+), (\d+)>>')
DRIFT_RE = re.compile(r'<<"DRIFT", (\d+), (\d+), "([^"]*)"')


RACE_RE = re.compile(r'<<"RACE", (\d+), <<"([a-z]+)", "([a-z]+)">>, <<"([a-z]+)", "([a-z]+)">>>>')


def validate_trace(trace, module, cfgfile, tag, constants_env=None, parts=None, timeout=1200, cfg_text=None):
    """Run a trace spec over the trace (split over several TLC processes).
    Returns dict(viol=[(prop,pred,line,arena)], drift=[(line,arena,what)], events=n) with GLOBAL 1-based lines."""
    parts = parts or NPROC
    wd = ensure_dir(os.path.join(WORK, "val", tag))
    shutil.rmtree(wd, ignore_errors=True)
    ensure_dir(wd)
    files, lines = split_trace(trace, parts, os.path.join(wd, "parts"))

    def one(item):
        fn, base = item
        sub = ensure_dir(os.path.join(wd, os.path.basename(fn) + ".d"))
        if cfg_text is None:
            shutil.copy(os.path.join(SPEC, cfgfile), os.path.join(sub, cfgfile))
        else:
            with open(os.path.join(sub, cfgfile), "w") as f:
                f.write(cfg_text)
        env = {"TRACE": fn}
        if constants_env:
            env.update(constants_env)
        rc, out = run_tlc(sub, module, cfgfile, workers=1, env=env, timeout=timeout, heap="3g")
        return fn, base, rc, out

    viol, drift, races = [], [], []
    with ThreadPoolExecutor(max_workers=parts) as ex:
        for fn, base, rc, out in ex.map(one, files):
            if "TRACE-CONSUMED" not in out:
                sys.stderr.write(out[-3000:])
                raise ToolError("trace validation did not consume %s (rc=%s)" % (fn, rc))
            for m in VIOL_RE.finditer(out):
                viol.append((m.group(1), m.group(2), int(m.group(3)) + base, int(m.group(4))))
            for m in DRIFT_RE.finditer(out):
                drift.append((int(m.group(1)) + base, int(m.group(2)), m.group(3)))
            for m in RACE_RE.finditer(out):
                races.append((int(m.group(1)) + base, "%s-%s" % (m.group(2), m.group(3)), "%s-%s" % (m.group(4), m.group(5))))
    return {"viol": viol, "drift": drift, "races": races, "events": len(lines), "lines": lines}


def locate(lines, gline):
    """Map a global 1-based trace line to (driver reset event json, op index within the driver, event json)."""
    i = gline - 1
    ev = json.loads(lines[i])
    j = i
    while j >= 0:
        if '"ev":"reset"' in lines[j]:
            break
        j -= 1
    reset = json.loads(lines[j]) if j >= 0 else None
    return reset, ev


# --------------------------------------------------------------------------- harness runs
def run_harness(binary, sub, args, timeout=600, allow_fail=False, cpu_limit=None, watch=None, stall=60):
    """cpu_limit (seconds of the harness's own CPU time): a run that never ends is a result (death by SIGXCPU, attributed
    like any other death), not a tool error, and a loaded machine cannot fake it."""
    t0 = time.time()

    def limits():
        import resource
        resource.setrlimit(resource.RLIMIT_CORE, (0, 0))
        if cpu_limit:
            resource.setrlimit(resource.RLIMIT_CPU, (cpu_limit, cpu_limit + 5))

    if watch:
        # the harness appends to `watch` all the time: a process whose output has not grown for `stall` seconds is stuck
        # (deadlocked in a corrupted heap, say) and is ended: a death like any other
        import tempfile
        with tempfile.TemporaryFile(mode="w+") as so:
            pr = subprocess.Popen([binary, sub] + args, stdout=so, stderr=subprocess.STDOUT, text=True, preexec_fn=limits)
            last, since = -1, time.time()
            while pr.poll() is None:
                time.sleep(0.5)
                try:
                    sz = os.path.getsize(watch)
                except OSError:
                    sz = -1
                if sz != last:
                    last, since = sz, time.time()
                elif time.time() - since > stall or time.time() - t0 > timeout:
                    pr.kill()
                    pr.wait()
                    so.seek(0)
                    return -998, so.read(), time.time() - t0
            so.seek(0)
            out = so.read()
        if pr.returncode != 0 and not allow_fail:
            sys.stderr.write(out[-3000:])
            raise ToolError("harness %s failed rc=%s" % (sub, pr.returncode))
        return pr.returncode, out, time.time() - t0
    try:
        p = subprocess.run([binary, sub] + args, stdout=subprocess.PIPE, stderr=subprocess.STDOUT, text=True, timeout=timeout,
                           preexec_fn=limits)
    except subprocess.TimeoutExpired as ex:
        if not allow_fail:
            raise ToolError("harness %s did not finish within %d s" % (sub, timeout))
        # a process that neither finishes nor burns CPU (deadlocked, e.g. in a corrupted heap): a death like any other
        out = ex.stdout.decode() if isinstance(ex.stdout, bytes) else (ex.stdout or "")
        return -998, out, time.time() - t0
    if p.returncode != 0 and not allow_fail:
        sys.stderr.write(p.stdout[-3000:])
        raise ToolError("harness %s failed rc=%s" % (sub, p.returncode))
    return p.returncode, p.stdout, time.time() - t0


def write_ndjson(path, items):
    ensure_dir(os.path.dirname(path))
    with open(path, "w") as f:
        for it in items:
            f.write(json.dumps(it, separators=(",", ":")) + "\n")


# --------------------------------------------------------------------------- evidence / findings / exit
def load_findings():
    p = os.path.join(VERIF, "known_findings.json")
    if not os.path.exists(p):
        return []
    with open(p) as f:
        return json.load(f).get("entries", [])


def write_evidence(prop, tier, seed, level, coverage, wall, violations, assumptions=None, extra=None):
    ev = {"property_id": prop, "tier": tier, "seed": seed, "level": level, "coverage": coverage,
          "wall_s": round(wall, 2), "violations": violations, "assumptions": assumptions or []}
    if extra:
        ev.update(extra)
    ensure_dir(os.path.join(OUT, "evidence"))
    with open(os.path.join(OUT, "evidence", prop + ".json"), "w") as f:
        json.dump(ev, f, indent=1)
    return ev


def save_replay(prop, payload):
    d = ensure_dir(os.path.join(OUT, "replays", prop))
    s = json.dumps(payload, sort_keys=True)
    h = hashlib.sha256(s.encode()).hexdigest()[:16]
    p = os.path.join(d, h + ".json")
    with open(p, "w") as f:
        f.write(json.dumps(payload, indent=1))
    return p
