"""Beyond the listed properties: the flush family of calls (memory.rs 836-980) against spec/Flush.tla.

 - MCFlush: every (call, offset, length) over a three-page mapping with the header inside one page / straddling two:
   the decision writes back every page asked for, stays inside the mapping, refuses exactly what leaves it, <= 2 calls;
 - real code: boundary-dense (offset, length) pairs on file-backed sync / unsync arenas whose header lies inside the first
   page or straddles the first page boundary; the msync(2) calls of every call are recorded with strace and judged by
   TraceFlush (what a user relies on: XFL predicates; what the model decides: DRIFT).

No listed property speaks about flush ranges, so nothing here is a VIOLATION of C01..C20: results are printed as
BEYOND-LIST lines and stored in the evidence of C05 (whose statement quantifies over "with or without an explicit flush").
"""
import json
import os
import re
import shutil
import subprocess
import time

import rv
from rv import ToolError, log

OPS_RANGE = ["flush_range", "flush_async_range", "flush_header_and_range", "flush_async_header_and_range"]
OPS_PLAIN = ["flush", "flush_async", "flush_header", "flush_async_header"]


def mc():
    key = rv.spec_hash("flush")[:16]
    cf = os.path.join(rv.ensure_dir(rv.MC_CACHE), "flush-%s.json" % key)
    if os.path.exists(cf):
        return json.load(open(cf))
    wd = os.path.join(rv.WORK, "mc", "flush")
    shutil.rmtree(wd, ignore_errors=True)
    rv.ensure_dir(wd)
    shutil.copy(os.path.join(rv.SPEC, "MCFlush.cfg"), os.path.join(wd, "MCFlush.cfg"))
    rc, out = rv.run_tlc(wd, "MCFlush.tla", "MCFlush.cfg", workers=4, deque=False, timeout=900, heap="4g")
    st = rv.tlc_stats(out)
    if st is None:
        raise ToolError("MCFlush failed: %s" % out[-1500:])
    res = {"rc": rc, "generated": st[0], "distinct": st[1]}
    if rc != 0:
        res["error"] = out[-2500:]
    shutil.rmtree(wd, ignore_errors=True)
    rv.dump_json_atomic(cf, res)
    return res


def drivers(tier):
    page = os.sysconf("SC_PAGE_SIZE")
    cap = 3 * page
    ds = []
    for flavor in ["sync", "unsync"]:
        # reserved 0: header at [8, 32) inside page 0; reserved page-24: header at [page-16, page+8) straddles the boundary
        for reserved in [0, page - 24]:
            hoff = ((reserved + 7) // 8) * 8 + 8
            hend = hoff + 24
            offs = sorted({0, 1, 7, 8, 31, 32, 33, 40, hoff - 1, hoff, hoff + 1, hend - 1, hend, hend + 1, page - 1, page, page + 1,
                           2 * page - 1, 2 * page, 2 * page + 1, cap - 1, cap, cap + 1, 1 << 31, (1 << 32) - 1, 1 << 63, (1 << 64) - 1})
            lens = sorted({0, 1, 8, 24, page - 1, page, page + 1, 2 * page, cap - 1, cap, cap + 1, 1 << 32, (1 << 64) - 1})
            if tier == "quick":
                offs = [o for i, o in enumerate(offs) if i % 2 == 0 or o >= cap - 1]
            calls = [{"op": op, "off": "0", "len": "0"} for op in OPS_PLAIN]
            for op in OPS_RANGE:
                for o in offs:
                    for n in lens:
                        calls.append({"op": op, "off": str(o), "len": str(n)})
            ds.append({"id": "flush:%s:%d" % (flavor, reserved), "flavor": flavor,
                       "cfg": {"cap": cap, "reserved": reserved, "kind": "opt", "minseg": 8, "unify": True, "magic": 0}, "calls": calls})
    return ds


ST_WRITE = re.compile(r'^\d+\s+write\(\d+, "\{\\"ev\\":\\"(c|r|reset)\\"')
ST_MSYNC = re.compile(r'^\d+\s+msync\((0x[0-9a-f]+|NULL), (\d+), (MS_\w+(?:\|MS_\w+)*)\)\s+= (-?\d+)')


def run_real(tier, profile="dev"):
    binary = rv.build_harness(profile)
    wd = rv.ensure_dir(os.path.join(rv.WORK, "flush-" + profile))
    dfile, tfile, sfile = os.path.join(wd, "drivers.ndjson"), os.path.join(wd, "trace.ndjson"), os.path.join(wd, "strace.txt")
    ds = drivers(tier)
    rv.write_ndjson(dfile, ds)
    p = subprocess.run(["strace", "-f", "-s", "24", "-e", "trace=msync,write", "-o", sfile, binary, "flush", dfile, tfile, os.path.join(wd, "files")],
                       stdout=subprocess.PIPE, stderr=subprocess.STDOUT, text=True, timeout=1800)
    if p.returncode != 0:
        raise ToolError("flush harness under strace failed rc=%s: %s" % (p.returncode, p.stdout[-1500:]))
    # join: the msync calls between the write of a "c" record and the write of the following "r" record belong to that call
    per_call, cur = [], None
    with open(sfile) as f:
        for ln in f:
            m = ST_WRITE.match(ln)
            if m:
                if m.group(1) == "c":
                    cur = []
                elif m.group(1) == "r":
                    per_call.append(cur if cur is not None else [])
                    cur = None
                continue
            m = ST_MSYNC.match(ln)
            if m and cur is not None:
                cur.append((0 if m.group(1) == "NULL" else int(m.group(1), 16), int(m.group(2)), "MS_ASYNC" in m.group(3), int(m.group(4))))
    merged, k, base, n_ms = [], 0, 0, 0
    with open(tfile) as f:
        for ln in f:
            e = json.loads(ln)
            if e["ev"] == "reset":
                if e.get("ok"):
                    base = int(e["base"])
                    e["base"] = 0
                merged.append(e)
            elif e["ev"] == "r":
                if k >= len(per_call):
                    raise ToolError("strace log and harness trace disagree on the number of calls")
                ms = [[rv_sat(a - base), rv_sat(n), asy] for (a, n, asy, _) in per_call[k]]
                n_ms += len(ms)
                k += 1
                merged.append({"ev": "call", "i": e["i"], "op": e["op"], "off": min(e["off"], 1 << 29), "len": min(e["len"], 1 << 29), "offx": e["offx"], "lenx": e["lenx"],
                               "res": e["res"], "ms": ms})
    if k != len(per_call):
        raise ToolError("strace log has %d calls, harness trace %d" % (len(per_call), k))
    mfile = os.path.join(wd, "merged.ndjson")
    rv.write_ndjson(mfile, merged)
    r = rv.validate_trace(mfile, "TraceFlush.tla", "TraceFlush.cfg", "flush-" + profile, parts=4,
                          cfg_text="SPECIFICATION Spec\nCONSTANT P = %d\nPOSTCONDITION Post\nCHECK_DEADLOCK FALSE\n" % os.sysconf("SC_PAGE_SIZE"))
    lines = r["lines"]
    viol, drift = {}, {}
    for (_, pred, gl, _) in r["viol"]:
        e = json.loads(lines[gl - 1])
        viol.setdefault("%s@%s" % (pred, e["op"]), []).append({"op": e["op"], "off": e["offx"], "len": e["lenx"], "res": e["res"], "ms": e["ms"]})
    for (gl, _, w) in r["drift"]:
        e = json.loads(lines[gl - 1])
        drift.setdefault("%s@%s" % (w, e.get("op", "reset")), []).append({"op": e.get("op"), "off": e.get("offx"), "len": e.get("lenx"), "res": e.get("res"), "ms": e.get("ms")})
    shutil.rmtree(os.path.join(wd, "files"), ignore_errors=True)
    return {"profile": profile, "calls": k, "msync_calls": n_ms, "arenas": len(ds),
            "beyond_list_violations": {s: {"count": len(v), "first": v[0]} for s, v in sorted(viol.items())},
            "drift": {s: {"count": len(v), "first": v[0]} for s, v in sorted(drift.items())}}


def rv_sat(x):
    # TLC integers are 32 bit: two saturated values must still add up
    return max(-(1 << 29), min(1 << 29, x))


def run_all(tier, quiet=False):
    t0 = time.time()
    m = mc()
    if m["rc"] != 0:
        raise ToolError("the Flush decision violates its own predicates in the model: %s" % m.get("error", "")[-800:])
    res = {"model": {"combinations": m["distinct"], "rc": m["rc"]}, "real": [run_real(tier, "dev")]}
    if tier == "thorough":
        res["real"].append(run_real(tier, "release"))
    res["wall_s"] = round(time.time() - t0, 1)
    for r in res["real"]:
        log("flush (%s): %d calls, %d msync, %d beyond-list signature(s), %d drift signature(s)" % (
            r["profile"], r["calls"], r["msync_calls"], len(r["beyond_list_violations"]), len(r["drift"])))
        for s, v in ([] if quiet else r["beyond_list_violations"].items()):
            print("BEYOND-LIST flush %s (%s build, x%d) e.g. %s" % (s, r["profile"], v["count"], json.dumps(v["first"])[:300]))
    return res


def run(prop, tier, seed):
    res = run_all(tier)
    print(json.dumps(res, indent=1)[:3000])
    return 0
