"""bin/check selftest: demonstrates that the specifications are bound to the traces.
 1. field corruption in a recorded sequential trace  -> TraceSeqProp must print VIOL, TraceSeqImpl DRIFT
 2. weakened orderings in a recorded concurrent trace -> TraceHB must report races
 3. weakened orderings in the micro-op table           -> MCSyncHB must violate NoRace
 4. a dropped hook event (Dealloc)                     -> C13 predicate must fail
"""
import json
import os
import random
import re
import shutil
import subprocess

import eng_seq
import eng_sync as es
import gen_seq
import rv
from rv import log


def run():
    ok = True
    binary = rv.build_harness("dev")
    wd = rv.ensure_dir(os.path.join(rv.WORK, "selftest"))
    rng = random.Random(3)
    ds = []
    for i in range(30):
        d = gen_seq.churn_driver(rng, "st:%d" % i, [["sync", "vec"], ["unsync", "vec"]], rounds=6)
        d["cfg"]["compare"] = [[1, 2, "C11", False]]
        ds.append(d)
    dfile, tfile = os.path.join(wd, "d.ndjson"), os.path.join(wd, "t.ndjson")
    rv.write_ndjson(dfile, ds)
    rv.run_harness(binary, "seq", [dfile, tfile, os.path.join(wd, "files")])
    evs = [json.loads(l) for l in open(tfile)]
    done = {}
    for i, e in enumerate(evs):
        if e["ev"] != "op":
            continue
        a = e["arenas"][0]
        k = e["op"]["k"]
        if k == "ab" and a["res"]["k"] == "ok" and a["res"]["ps"] > 4 and "ps" not in done:
            a["res"]["ps"] += 1
            done["ps"] = ("C03", "ShapeOk", i + 1)
        elif k == "drop" and a["res"]["k"] == "ok" and a.get("api") and "api" not in done and i > 60:
            a["api"] = []
            done["api"] = ("C13", "ReleasesOwnExtentOnce", i + 1)
        elif k in ("drop", "dealloc") and a["res"]["k"] == "ok" and "disc" not in done and i > 120:
            a["obs"]["disc"] += 1
            done["disc"] = ("C11", "SameObservation", i + 1)
        elif k == "ab" and a["res"]["k"] == "ok" and a["res"]["ps"] > 2 and "mem" not in done and i > 200:
            # one byte of the freshly filled handle changes
            po = a["res"]["po"]
            new = []
            for lo, ln, v in a["mem"]:
                if lo <= po < lo + ln and ln > 1:
                    if po > lo:
                        new.append([lo, po - lo, v])
                    new.append([po, 1, (v + 1) % 256])
                    if lo + ln > po + 1:
                        new.append([po + 1, lo + ln - po - 1, v])
                else:
                    new.append([lo, ln, v])
            a["mem"] = new
            done["mem"] = ("C01", "LiveIntact", i + 1)
    cfile = os.path.join(wd, "tc.ndjson")
    rv.write_ndjson(cfile, evs)
    r = rv.validate_trace(cfile, "TraceSeqProp.tla", "TraceSeqProp.cfg", "selftest-prop", parts=1)
    got = {(p, pred, gl) for (p, pred, gl, a) in r["viol"]}
    for name, exp in done.items():
        hit = exp in got
        print("selftest 1/%s: corrupted %s at line %d -> %s %s" % (name, name, exp[2], exp[0] + ":" + exp[1], "REPORTED" if hit else "MISSED"))
        ok &= hit
    ri = rv.validate_trace(cfile, "TraceSeqImpl.tla", "TraceSeqImpl.cfg", "selftest-impl", parts=1)
    print("selftest 1/impl: %d DRIFT event(s) on the corrupted trace (expected > 0)" % len(ri["drift"]))
    ok &= len(ri["drift"]) > 0
    r0 = rv.validate_trace(tfile, "TraceSeqProp.tla", "TraceSeqProp.cfg", "selftest-prop0", parts=1)
    print("selftest 1/clean: %d VIOL on the unmodified trace (expected 0)" % len(r0["viol"]))
    ok &= len(r0["viol"]) == 0

    # 2. concurrent trace with weakened orderings
    import check_sync as cs
    rng = random.Random(5)
    cds = []
    for i in range(40):
        cfg = es.conc_cfg(cap=200, kind=rng.choice(["opt", "pes"]), minseg=8, retries=2)
        setup, _ = cs.random_setup(rng, 199)
        progs = [cs.random_program(rng, t, 200) for t in range(2)]
        cds.append({"id": "st:%d" % i, "cfg": cfg, "setup": setup, "threads": progs, "schedule": cs.random_schedule(rng, 2, 60),
                    "tail_seed": 7, "budget": 8000})
    tr = es.run_conc(binary, cds, "selftest")
    r1 = rv.validate_trace(tr, "TraceHB.tla", "TraceHB.cfg", "selftest-hb0", parts=2)
    print("selftest 2/clean: %d race(s) with the recorded orderings (expected 0)" % len(r1["races"]))
    ok &= len(r1["races"]) == 0
    weak = os.path.join(wd, "weak.ndjson")
    with open(tr) as f, open(weak, "w") as g:
        for l in f:
            e = json.loads(l)
            if e.get("ev") == "acc" and e["kind"] in ("cas", "casw", "store", "fadd"):
                e["so"] = "rlx"
            g.write(json.dumps(e) + "\n")
    r2 = rv.validate_trace(weak, "TraceHB.tla", "TraceHB.cfg", "selftest-hb1", parts=2)
    print("selftest 2/weakened: %d race(s) after weakening every recorded RMW/store to relaxed (expected > 0)" % len(r2["races"]))
    ok &= len(r2["races"]) > 0

    # 3. weakened micro-op table
    name, cfg, setup, progs, flags = [s for s in cs.scenarios("quick") if s[0] == "recycle_across_pes"][0]
    txt, _ = es.setup_state(binary, cfg, setup, "selftest")
    mwd = os.path.join(rv.WORK, "mc", "selftest-hb")
    shutil.rmtree(mwd, ignore_errors=True)
    m, c = es.write_mcsync(mwd, "MCst", cfg, txt, progs, hb=True)
    rc, out = rv.run_tlc(mwd, m, c, workers=4, deque=False, timeout=600)
    print("selftest 3/clean: MCSyncHB rc=%d (expected 0)" % rc)
    ok &= rc == 0
    p = os.path.join(mwd, "ArenaSync.tla")
    s = open(p).read()
    s2 = s.replace('Store(at, v) == Acc0("store", at, v, 0, "rel", "rel")', 'Store(at, v) == Acc0("store", at, v, 0, "rlx", "rlx")')
    s2 = s2.replace('Cas(l.fcur, l.fcw, W(l.fcw.size, l.node), "acqrel", "rlx")', 'Cas(l.fcur, l.fcw, W(l.fcw.size, l.node), "rlx", "rlx")')
    assert s2 != s
    # run_tlc copies spec/*.tla into the work dir: run TLC by hand on the modified copy
    open(p, "w").write(s2)
    q = subprocess.run(["java", "-XX:+UseParallelGC", "-cp", rv.TLC_JAR + ":/opt/veriftools/tla/CommunityModules-deps.jar", "tlc2.TLC",
                        "-workers", "4", "-metadir", os.path.join(mwd, "md"), "-cleanup", "-noGenerateSpecTE", "-config", c, m],
                       cwd=mwd, stdout=subprocess.PIPE, stderr=subprocess.STDOUT, text=True, timeout=600)
    hit = "Invariant NoRace is violated" in q.stdout
    print("selftest 3/weakened: link CAS and node store relaxed in the micro-op table -> NoRace %s" % ("VIOLATED (as expected)" if hit else "NOT violated"))
    ok &= hit
    shutil.rmtree(mwd, ignore_errors=True)

    # 4. the flush family: a dropped msync record and a mutated decision
    try:
        import check_flush
        check_flush.run_real("quick", "dev")
        mf = os.path.join(rv.WORK, "flush-dev", "merged.ndjson")
        evs = [json.loads(l) for l in open(mf)]
        where = None
        for i, e in enumerate(evs):
            if e.get("ev") == "call" and len(e.get("ms", [])) == 2 and e["ms"][1][0] >= e["ms"][0][0] + e["ms"][0][1]:
                e["ms"] = e["ms"][1:]          # the header's msync is lost
                where = i + 1
                break
        cf = os.path.join(wd, "flush-corrupt.ndjson")
        rv.write_ndjson(cf, evs)
        cfg_text = "SPECIFICATION Spec\nCONSTANT P = %d\nPOSTCONDITION Post\nCHECK_DEADLOCK FALSE\n" % os.sysconf("SC_PAGE_SIZE")
        rf = rv.validate_trace(cf, "TraceFlush.tla", "TraceFlush.cfg", "selftest-flush", parts=1, cfg_text=cfg_text)
        hit = any(pred == "CoversWhatWasAsked" and gl == where for (_, pred, gl, _) in rf["viol"])
        print("selftest 4/trace: header msync removed from the record at line %s -> CoversWhatWasAsked %s" % (where, "REPORTED" if hit else "MISSED"))
        ok &= hit
        fwd = os.path.join(rv.WORK, "mc", "selftest-flush")
        shutil.rmtree(fwd, ignore_errors=True)
        rv.ensure_dir(fwd)
        for f in os.listdir(rv.SPEC):
            if f.endswith(".tla") or f == "MCFlush.cfg":
                shutil.copy(os.path.join(rv.SPEC, f), os.path.join(fwd, f))
        fp = os.path.join(fwd, "Flush.tla")
        fs = open(fp).read()
        fs2 = fs.replace("ELSE IF off <= hoff /\\ hend <= fend THEN Ok(<<Req(off, len)>>)", "ELSE IF off <= hoff THEN Ok(<<Req(off, len)>>)")
        assert fs2 != fs
        open(fp, "w").write(fs2)
        q = subprocess.run(["java", "-XX:+UseParallelGC", "-cp", rv.TLC_JAR + ":/opt/veriftools/tla/CommunityModules-deps.jar", "tlc2.TLC",
                            "-workers", "4", "-metadir", os.path.join(fwd, "md"), "-cleanup", "-noGenerateSpecTE", "-config", "MCFlush.cfg", "MCFlush.tla"],
                           cwd=fwd, stdout=subprocess.PIPE, stderr=subprocess.STDOUT, text=True, timeout=600)
        hit = "Invariant CoversWhatWasAsked is violated" in q.stdout
        print("selftest 4/model: 'range contains the header' test weakened in Flush.tla -> CoversWhatWasAsked %s" % ("VIOLATED (as expected)" if hit else "NOT violated"))
        ok &= hit
        shutil.rmtree(fwd, ignore_errors=True)
    except rv.ToolError as e:
        print("selftest 4: skipped (%s)" % str(e)[:120])
    # 5. file locks: a flipped result in the record, and the model without Linux's "refused change of mode loses the lock"
    try:
        import check_locks
        m = check_locks.mc()
        check_locks.run_real(m, "quick", "dev")
        tf = os.path.join(rv.WORK, "locks-dev", "trace.ndjson")
        evs = [json.loads(l) for l in open(tf)][:4000]
        where = None
        for i, e in enumerate(evs):
            if e.get("ev") == "op" and e["op"]["k"] == "try_ex" and e["res"].get("v") is False:
                e["res"]["v"] = True             # an exclusive lock granted next to another holder
                where = i + 1
                break
        cf = os.path.join(wd, "locks-corrupt.ndjson")
        rv.write_ndjson(cf, evs)
        rf = rv.validate_trace(cf, "TraceLocks.tla", "TraceLocks.cfg", "selftest-locks", parts=1)
        hit = any(pred == "GrantRespectsHolders" and gl == where for (_, pred, gl, _) in rf["viol"]) and any(gl == where for (gl, _, w) in rf["drift"])
        print("selftest 5/trace: refused try_lock_exclusive flipped to granted at line %s -> GrantRespectsHolders + DRIFT %s" % (where, "REPORTED" if hit else "MISSED"))
        ok &= hit
        lwd = os.path.join(rv.WORK, "val", "selftest-locks-model")
        shutil.rmtree(lwd, ignore_errors=True)
        rv.ensure_dir(lwd)
        for f in os.listdir(rv.SPEC):
            if f.endswith(".tla") or f == "TraceLocks.cfg":
                shutil.copy(os.path.join(rv.SPEC, f), os.path.join(lwd, f))
        lp = os.path.join(lwd, "Locks.tla")
        ls = open(lp).read()
        ls2 = ls.replace('[st |-> [st EXCEPT !.held[s] = "none"], res |-> Res("ok", FALSE), blocks |-> ~try]', '[st |-> st, res |-> Res("ok", FALSE), blocks |-> ~try]')
        assert ls2 != ls
        open(lp, "w").write(ls2)
        e = dict(os.environ)
        e["TRACE"] = tf
        e["JAVA_TOOL_OPTIONS"] = "-Xss1g -Dtlc2.tool.queue.IStateQueue=StateDeque"
        q = subprocess.run(["java", "-XX:+UseParallelGC", "-Xmx3g", "-cp", rv.TLC_JAR + ":/opt/veriftools/tla/CommunityModules-deps.jar", "tlc2.TLC",
                            "-workers", "1", "-metadir", os.path.join(lwd, "md"), "-cleanup", "-noGenerateSpecTE", "-config", "TraceLocks.cfg", "TraceLocks.tla"],
                           cwd=lwd, env=e, stdout=subprocess.PIPE, stderr=subprocess.STDOUT, text=True, timeout=900)
        hit = '"DRIFT"' in q.stdout and "TRACE-CONSUMED" in q.stdout
        print("selftest 5/model: Locks.tla without 'a refused change of mode loses the lock' -> the real traces %s" % ("DRIFT (as expected: Linux does lose it)" if hit else "still conform"))
        ok &= hit
        shutil.rmtree(lwd, ignore_errors=True)
    except rv.ToolError as e:
        print("selftest 5: skipped (%s)" % str(e)[:120])
    print("SELFTEST %s" % ("PASSED" if ok else "FAILED"))
    return 0 if ok else 1
