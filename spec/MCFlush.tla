------------------------------ MODULE MCFlush ------------------------------
(***************************************************************************)
(* Every (call, offset, length) over a three-page mapping, with the header *)
(* inside one page and straddling two: the decision of memory.rs must      *)
(* write back every page asked for, stay inside the mapping, and refuse    *)
(* exactly the requests that leave it.                                     *)
(***************************************************************************)
EXTENDS Flush, TLC

MLens == {96, 100}                                   \* mapping lengths (whole pages / a partial last page)
Headers == {<<8, 24>>, <<24, 24>>, <<40, 24>>}       \* <<hoff, hsize>>: inside page 0, straddling pages 0-1, inside page 1
Ops == {"flush", "flush_async", "flush_range", "flush_async_range", "flush_header", "flush_async_header",
        "flush_header_and_range", "flush_async_header_and_range"}

VARIABLES op, off, len, mlen, h
vars == <<op, off, len, mlen, h>>

Init == /\ op \in Ops /\ mlen \in MLens /\ h \in Headers
        /\ off \in 0..(mlen + 3) /\ len \in 0..(mlen + 3)
Next == UNCHANGED vars
Spec == Init /\ [][Next]_vars

D == Decide(op, off, len, mlen, h[1], h[2])
MS == [i \in 1..Len(D.reqs) |-> Msync(D.reqs[i])]

RefusesExactlyOutOfBounds == (D.k = "err") = ShouldRefuse(op, off, len, mlen)
CoversWhatWasAsked == D.k = "ok" => Covered(op, off, len, mlen, h[1], h[2], MS)
StaysInsideMapping == D.k = "ok" => InBounds(mlen, MS)
AtMostTwoCalls == Len(D.reqs) <= 2
=============================================================================
