---------------------------- MODULE TraceSyncProp ----------------------------
(***************************************************************************)
(* Property-level monitor for concurrent executions recorded by the        *)
(* controlled scheduler (harness/src/conc.rs).  The controller serialises  *)
(* the threads at every atomic access, so the trace is one interleaving    *)
(* and "at the same time" is well defined:                                 *)
(*   a range is live from the event at which its allocation call returns   *)
(*   until the event at which its release call is entered.                 *)
(* C02: a returned range is disjoint from every live range and inside the  *)
(*      data area; whenever a handle's bytes are looked at (verify, end)   *)
(*      they are what its owner wrote last.                                *)
(* C07: under the fair tail of the schedule every started call returns;    *)
(*      a `stuck` record (nobody wrote for 400 steps although every        *)
(*      unfinished thread kept being scheduled) is non-termination.        *)
(* Violations print <<"VIOL", property, predicate, line, thread>>.         *)
(***************************************************************************)
EXTENDS Common, TLC, Json, IOUtils

Rec == ndJsonDeserialize(IOEnv.TRACE)

VARIABLES l, live, cfg, doff, cap, freed,
          vals     \* own_clones runs: how many arena values are alive (every thread starts with one); -1 = not tracked
vars == <<l, live, cfg, doff, cap, freed, vals>>

Has(r, f) == f \in DOMAIN r
Viol(prop, pred, t, ok) == IF ok THEN TRUE ELSE PrintT(<<"VIOL", prop, pred, l, t>>)
NoLive == [x \in {} |-> 0]

IsAlloc(op) == op.k \in {"ab", "at", "aa"}
IsRelease(op) == op.k \in {"drop", "dealloc", "leak"}
Without(f, h) == [i \in DOMAIN f \ {h} |-> f[i]]

\* effect of one call/ret event on the live map
Apply(lv, e) ==
  IF e.ev = "call" /\ IsRelease(e.op) /\ e.op.k # "leak" /\ e.op.h \in DOMAIN lv THEN Without(lv, e.op.h)
  ELSE IF e.ev = "ret" /\ IsAlloc(e.op) /\ e.res.k = "ok"
       THEN (e.res.h :> [po |-> e.res.po, ps |-> e.res.ps, expect |-> <<>>, known |-> FALSE, t |-> e.t]) @@ lv
  ELSE IF e.ev = "ret" /\ e.op.k \in {"fill", "write"} /\ e.res.k = "ok" /\ e.op.h \in DOMAIN lv
       THEN [lv EXCEPT ![e.op.h].expect = e.res.bytes, ![e.op.h].known = TRUE]
  ELSE lv

Check(lv, e, d, c) ==
  IF e.ev = "ret" /\ IsAlloc(e.op) THEN
     IF e.res.k = "ok" THEN
        LET r == e.res IN
        /\ Viol("C02", "NewDisjointFromLive", e.t, \A h \in DOMAIN lv : Disjoint(Acc(r), Acc(lv[h])))
        /\ Viol("C02", "InsideDataArea", e.t, r.ps = 0 \/ (d <= r.po /\ r.po + r.ps <= c /\ r.po + r.ps <= r.cur))
        /\ Viol("C02", "PointerMatchesOffset", e.t, r.ptr_off < 0 \/ r.ptr_off = r.po)
     ELSE Viol("C02", "CleanErrorKind", e.t, e.res.k \in {"err_space", "err_ro"})
  ELSE IF e.ev = "ret" /\ e.op.k = "verify" /\ e.res.k = "ok" /\ e.op.h \in DOMAIN lv THEN
     Viol("C02", "LiveIntact", e.t, ~lv[e.op.h].known \/ e.res.bytes = lv[e.op.h].expect)
  ELSE TRUE

\* the setup history (sequential) is processed with the same rules
SetupLive(evs) ==
  LET F[i \in 0..Len(evs)] == IF i = 0 THEN NoLive ELSE Apply(F[i - 1], evs[i]) IN F[Len(evs)]
SetupCheck(evs, d, c) ==
  LET F[i \in 0..Len(evs)] == IF i = 0 THEN NoLive ELSE Apply(F[i - 1], evs[i]) IN
  \A i \in 1..Len(evs) : Check(F[i - 1], evs[i], d, c)

EndCheck(e) ==
  /\ \A k \in 1..Len(e.live) :
        LET x == e.live[k] IN
        Viol("C02", "LiveIntactAtEnd", 0, (x.h \notin DOMAIN live) \/ ~live[x.h].known \/ x.bytes = live[x.h].expect)
  /\ Viol("C02", "LiveDisjointAtEnd", 0,
          \A a, b \in DOMAIN live : a # b => Disjoint(Acc(live[a]), Acc(live[b])))

Init == l = 1 /\ live = NoLive /\ cfg = [none |-> TRUE] /\ doff = 0 /\ cap = 0 /\ freed = 0 /\ vals = -1

StepReset ==
  LET e == Rec[l] IN
  /\ e.ev = "reset"
  /\ IF e.ok
     THEN /\ SetupCheck(e.setup, e.obs.doff, e.obs.cap)
          /\ live' = SetupLive(e.setup) /\ doff' = e.obs.doff /\ cap' = e.obs.cap
     ELSE live' = NoLive /\ doff' = 0 /\ cap' = 0
  /\ cfg' = e.cfg /\ freed' = 0
  /\ vals' = IF e.ok /\ "own_clones" \in DOMAIN e.cfg /\ e.cfg.own_clones THEN e.nthreads ELSE -1
  /\ l' = l + 1

StepEv ==
  LET e == Rec[l] IN
  /\ e.ev \in {"call", "ret"}
  /\ Check(live, e, doff, cap)
  /\ live' = Apply(live, e)
  /\ Viol("C13", "NoAccessAfterFree", e.t, freed = 0 \/ (e.ev = "ret" /\ e.op.k = "drop_arena"))
  /\ vals' = IF vals < 0 \/ e.ev # "ret" THEN vals
             ELSE IF e.op.k = "clone" THEN vals + 1
             ELSE IF e.op.k \in {"drop_clone", "drop_arena"} THEN vals - 1 ELSE vals
  /\ UNCHANGED <<cfg, doff, cap, freed>>
  /\ l' = l + 1

\* the backing memory is being released: exactly once, and no arena step of any thread may follow
StepUnmount ==
  LET e == Rec[l] IN
  /\ e.ev \in {"unmount", "acc", "zero"}
  /\ IF e.ev = "unmount"
     THEN Viol("C13", "FreedOnce", e.t, freed = 0) /\ freed' = freed + 1
     ELSE Viol("C13", "NoAccessAfterFree", e.t, freed = 0) /\ freed' = freed
  /\ UNCHANGED <<live, cfg, doff, cap, vals>>
  /\ l' = l + 1

StepEnd ==
  LET e == Rec[l] IN
  /\ e.ev \in {"end", "stuck"}
  /\ EndCheck(e)
  \* the memory is released exactly when the last arena value has gone (and not before)
  /\ (e.ev = "end" /\ vals >= 0) => Viol("C13", "MemoryReleasedExactlyWhenLastValueGoes", 0, (freed = 1) = (vals = 0))
  /\ (e.ev = "stuck") =>
        \A k \in 1..Len(e.x.threads) : Viol("C07", IF e.x.kind = "spin" THEN "CallNeverReturns" ELSE "StepBudgetExceeded", e.x.threads[k].t, FALSE)
  /\ UNCHANGED <<live, cfg, doff, cap, freed, vals>>
  /\ l' = l + 1

\* the process died (abort / signal) while the arena was executing: it followed bytes that are not its own
StepDied ==
  /\ Rec[l].ev = "died"
  /\ Viol("C02", "ProcessDied", 0, FALSE)
  /\ UNCHANGED <<live, cfg, doff, cap, freed, vals>>
  /\ l' = l + 1

StepSkip == /\ Rec[l].ev \notin {"reset", "call", "ret", "end", "stuck", "died", "unmount", "acc", "zero"} /\ l' = l + 1
            /\ UNCHANGED <<live, cfg, doff, cap, freed, vals>>

Next == l <= Len(Rec) /\ (StepReset \/ StepEv \/ StepEnd \/ StepDied \/ StepUnmount \/ StepSkip)
Spec == Init /\ [][Next]_vars

Consumed == TLCGet("stats").diameter - 1 = Len(Rec)
Post == IF Consumed THEN PrintT(<<"TRACE-CONSUMED", Len(Rec)>>)
        ELSE PrintT(<<"TRACE-STUCK", TLCGet("stats").diameter, Len(Rec)>>) /\ FALSE
=============================================================================
