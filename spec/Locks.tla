------------------------------- MODULE Locks -------------------------------
(***************************************************************************)
(* Beyond the listed properties: the advisory file locks of an arena       *)
(* (allocator.rs lock_exclusive / lock_shared / try_lock_exclusive /       *)
(* try_lock_shared / unlock -> memory.rs 678-733 -> fs4 -> flock(2)).      *)
(*                                                                         *)
(* A *session* is one open of the file (Options::map_mut / map / map_copy /*)
(* map_copy_read_only): it owns one open file description, and flock locks *)
(* belong to the open file description.  The arena values of a session     *)
(* (Arena::clone) share it: a lock taken through one value is held by all  *)
(* of them and is released when the last value goes (the Memory is         *)
(* unmounted and the file closed) or when any of them calls unlock().      *)
(* Arenas without a file (Vec, anonymous map) have nothing to lock: lock_* *)
(* and unlock succeed and do nothing, try_lock_* answer false.             *)
(*                                                                         *)
(* What the code actually does, not what one would wish (Linux flock(2),   *)
(* fs/locks.c flock_lock_inode): changing the mode of a lock one already   *)
(* holds first drops the old lock and then looks for conflicts, so a       *)
(* *failed* try_lock_exclusive() of a shared holder leaves that session    *)
(* with no lock at all (ConversionLosesLock).                              *)
(***************************************************************************)
EXTENDS Integers, Sequences, FiniteSets

CONSTANTS Sessions       \* session ids

\* kinds: [Sessions -> {"map_mut", "map", "map_copy", "map_copy_ro", "anon", "vec"}]
IsFileKind(k) == k \in {"map_mut", "map", "map_copy", "map_copy_ro"}

\* held[s] \in {"none", "sh", "ex"}; vals[s] = number of arena values of the session (0 = closed)
InitState(kinds) == [kinds |-> kinds, held |-> [s \in Sessions |-> "none"], vals |-> [s \in Sessions |-> 0]]
IsFile(st, s) == IsFileKind(st.kinds[s])

Others(st, s) == {t \in Sessions \ {s} : st.held[t] # "none"}
Conflicts(st, s, mode) ==
  IF mode = "ex" THEN Others(st, s) # {} ELSE \E t \in Sessions \ {s} : st.held[t] = "ex"

Res(k, v) == [k |-> k, v |-> v]

\* one call; returns [st |-> next state, res |-> result]. `blocks` is TRUE where the real call would not return
\* (the drivers never issue such a call)
Step(st, op) ==
  LET s == op.s IN
  IF op.k = "open" THEN
       [st |-> [st EXCEPT !.vals[s] = 1], res |-> Res("ok", TRUE), blocks |-> FALSE]
  ELSE IF op.k = "clone" THEN
       [st |-> [st EXCEPT !.vals[s] = @ + 1], res |-> Res("ok", TRUE), blocks |-> FALSE]
  ELSE IF op.k = "dropval" THEN
       \* the last value closes the file: its lock goes with it
       [st |-> [st EXCEPT !.vals[s] = @ - 1, !.held[s] = IF st.vals[s] = 1 THEN "none" ELSE @],
        res |-> Res("ok", TRUE), blocks |-> FALSE]
  ELSE IF ~IsFile(st, s) THEN
       [st |-> st, res |-> IF op.k \in {"try_ex", "try_sh"} THEN Res("ok", FALSE) ELSE Res("ok", TRUE), blocks |-> FALSE]
  ELSE IF op.k = "unlock" THEN
       [st |-> [st EXCEPT !.held[s] = "none"], res |-> Res("ok", TRUE), blocks |-> FALSE]
  ELSE
  LET mode == IF op.k \in {"try_ex", "lock_ex"} THEN "ex" ELSE "sh"
      try == op.k \in {"try_ex", "try_sh"} IN
  IF st.held[s] = mode THEN [st |-> st, res |-> Res("ok", TRUE), blocks |-> FALSE]     \* already held in that mode
  ELSE IF Conflicts(st, s, mode)
       THEN \* ConversionLosesLock: the old lock was dropped before the conflict was found
            [st |-> [st EXCEPT !.held[s] = "none"], res |-> Res("ok", FALSE), blocks |-> ~try]
       ELSE [st |-> [st EXCEPT !.held[s] = mode], res |-> Res("ok", TRUE), blocks |-> FALSE]

\* ---------------------------------------------------------------- what a user relies on
\* the kernel's rule, as an invariant of the model
MutualExclusion(st) ==
  \A s, t \in Sessions : (s # t /\ st.held[s] = "ex") => st.held[t] = "none"
OnlyOpenSessionsHold(st) == \A s \in Sessions : st.vals[s] = 0 => st.held[s] = "none"
OnlyFilesHold(st) == \A s \in Sessions : ~IsFile(st, s) => st.held[s] = "none"

\* judged on recorded results alone, with a monitor that knows nothing of the conversion rule:
\*   sure[s]  = the mode s was last GRANTED and has not given up since (unlock, last value dropped, or any later
\*              lock call that was refused: after a refusal nothing is assumed to be held)
\*   maybe[s] = TRUE from the first granted lock until unlock / last value dropped
\* (an arena without a file answers Ok to lock_*: nothing is held, nothing is counted)
SureAfter(sure, op, res, lastval, isfile) ==
  LET s == op.s IN
  IF ~isfile THEN sure ELSE
  IF op.k \in {"try_ex", "lock_ex"} THEN [sure EXCEPT ![s] = IF res.v THEN "ex" ELSE "none"]
  ELSE IF op.k \in {"try_sh", "lock_sh"} THEN [sure EXCEPT ![s] = IF res.v THEN "sh" ELSE "none"]
  ELSE IF op.k = "unlock" \/ (op.k = "dropval" /\ lastval) THEN [sure EXCEPT ![s] = "none"]
  ELSE sure
MaybeAfter(maybe, op, res, lastval, isfile) ==
  LET s == op.s IN
  IF ~isfile THEN maybe ELSE
  IF op.k \in {"try_ex", "lock_ex", "try_sh", "lock_sh"} THEN [maybe EXCEPT ![s] = @ \/ res.v]
  ELSE IF op.k = "unlock" \/ (op.k = "dropval" /\ lastval) THEN [maybe EXCEPT ![s] = FALSE]
  ELSE maybe
\* a lock is not granted against a lock another session surely holds
GrantRespectsHolders(sure, op, res, isfile) ==
  (op.k \in {"try_ex", "lock_ex"} /\ isfile /\ res.v) => \A t \in DOMAIN sure : t = op.s \/ sure[t] = "none"
SharedRespectsExclusive(sure, op, res, isfile) ==
  (op.k \in {"try_sh", "lock_sh"} /\ isfile /\ res.v) => \A t \in DOMAIN sure : t = op.s \/ sure[t] # "ex"
\* a lock on a file is refused only if another session may hold one
RefusedOnlyWhenHeld(maybe, op, res, isfile) ==
  (op.k \in {"try_ex", "try_sh"} /\ isfile /\ ~res.v) => \E t \in DOMAIN maybe : t # op.s /\ maybe[t]
=============================================================================
