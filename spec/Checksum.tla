------------------------------ MODULE Checksum ------------------------------
(***************************************************************************)
(* Allocator::checksum (allocator.rs:1100-1131) as a specification: the    *)
(* bytes [reserved, allocated) are fed to the hasher page by page, then    *)
(* the remainder.  A chunk is <<offset in the arena, length>>.             *)
(*                                                                         *)
(* Part 1 - the loop, one action per `update` call.                        *)
(* Part 2 - property C19: the chunk list is an in-order tiling of          *)
(*   [reserved, allocated) (then any streaming digest equals the one-shot  *)
(*   digest of that range, however the implementation chunks), and the     *)
(*   digests reported are equal as strings.                                *)
(***************************************************************************)
EXTENDS Integers, Sequences

\* end offset of an in-order, gap-free chunk list starting at lo; -1 if it is not one
EndOf(chunks, lo) ==
  LET E[i \in 0..Len(chunks)] ==
        IF i = 0 THEN lo
        ELSE IF E[i - 1] >= 0 /\ chunks[i][1] = E[i - 1] /\ chunks[i][2] >= 0 THEN E[i - 1] + chunks[i][2] ELSE -1
  IN E[Len(chunks)]
Tiles(chunks, lo, hi) == lo <= hi /\ EndOf(chunks, lo) = hi

\* the offsets fed to the hasher, in order
Fed(chunks) ==
  LET F[i \in 0..Len(chunks)] ==
        IF i = 0 THEN <<>> ELSE F[i - 1] \o [j \in 1..chunks[i][2] |-> chunks[i][1] + j - 1]
  IN F[Len(chunks)]

\* closed form of what the loop produces
ChunksOf(reserved, allocated, page) ==
  LET total == allocated - reserved
      full == total \div page
      rem == total % page IN
  [i \in 1..(full + (IF rem > 0 THEN 1 ELSE 0)) |->
     IF i <= full THEN <<reserved + (i - 1) * page, page>> ELSE <<reserved + full * page, rem>>]

\* ------------------------------------------------------------------ part 1: the loop
CONSTANTS PageSize, MaxReserved, MaxData
VARIABLES reserved, allocated, pc, page_id, chunks
cvars == <<reserved, allocated, pc, page_id, chunks>>

Total == allocated - reserved
FullPages == Total \div PageSize
Remaining == Total % PageSize

CInit == /\ reserved \in 0..MaxReserved
         /\ allocated \in reserved..(reserved + MaxData)
         /\ pc = "pages" /\ page_id = 0 /\ chunks = <<>>

FeedPage == /\ pc = "pages" /\ page_id < FullPages
            /\ chunks' = Append(chunks, <<reserved + page_id * PageSize, PageSize>>)
            /\ page_id' = page_id + 1
            /\ UNCHANGED <<reserved, allocated, pc>>
PagesDone == /\ pc = "pages" /\ page_id = FullPages
             /\ pc' = "rest"
             /\ UNCHANGED <<reserved, allocated, page_id, chunks>>
FeedRest == /\ pc = "rest"
            /\ chunks' = IF Remaining > 0 THEN Append(chunks, <<reserved + FullPages * PageSize, Remaining>>) ELSE chunks
            /\ pc' = "digest"
            /\ UNCHANGED <<reserved, allocated, page_id>>

CNext == FeedPage \/ PagesDone \/ FeedRest
CSpec == CInit /\ [][CNext]_cvars /\ WF_cvars(CNext)

\* invariants
PrefixTiling == EndOf(chunks, reserved) >= reserved /\ EndOf(chunks, reserved) <= allocated
DoneTiles == (pc = "digest") => Tiles(chunks, reserved, allocated)
DoneFedExactly == (pc = "digest") => Fed(chunks) = [j \in 1..Total |-> reserved + j - 1]
DoneClosedForm == (pc = "digest") => chunks = ChunksOf(reserved, allocated, PageSize)
Terminates == <>(pc = "digest")

\* ------------------------------------------------------------------ part 2: property C19
PK(name, ok) == <<"C19", name, ok>>
ChecksumPreds(alloc, res_bytes, e) ==
  IF e.res.k = "died" THEN <<PK("ProcessDied", FALSE)>>
  ELSE IF e.res.k # "ok" THEN <<PK("NoPanic", FALSE)>>
  ELSE <<PK("ChunksTileAllocatedAfterReserved", Tiles(e.chunks, res_bytes, alloc)),
         PK("Crc32EqualsOneShot", e.res.crc = e.crc_ref),
         PK("StreamingDigestEqualsOneShot", e.res.fnv = e.fnv_ref)>>
=============================================================================
