---------------------------- MODULE TraceSeqProp ----------------------------
(***************************************************************************)
(* Property-level trace specification for sequential executions of the     *)
(* real arenas (harness/src/seq.rs).  It is a *monitor*: the state follows *)
(* what the code reported, and every predicate of the listed properties is *)
(* evaluated on every event; a false predicate prints                      *)
(*     <<"VIOL", property, predicate, line, arena index>>                  *)
(* and the run continues, so the rest of the trace is still checked.       *)
(* The predicates say only what the properties say: a different but        *)
(* correct implementation (other tie-breaks, smarter alignment) passes.    *)
(* All guards are in expression context (no action-level disjunction).     *)
(***************************************************************************)
EXTENDS ArenaProps, TLC, Json, IOUtils

Rec == ndJsonDeserialize(IOEnv.TRACE)

VARIABLES l, S, cfg
vars == <<l, S, cfg>>

Viol(prop, pred, a, ok) == IF ok THEN TRUE ELSE PrintT(<<"VIOL", prop, pred, l, a>>)

NoLive == [x \in {} |-> 0]
DeadArena == [ok |-> FALSE]

\* ------------------------------------------------------------------ reset
UnifyEff(c, d) == (Has(c, "unify") /\ c.unify) \/ d.backend = "file"
ReservedOf(c) == IF Has(c, "reserved") THEN c.reserved ELSE 0
MaxAlignOf(c) == IF Has(c, "maxalign") THEN c.maxalign ELSE 8
KindOf(c) == IF Has(c, "kind") THEN c.kind ELSE "opt"

InitArena(c, d) ==
  IF d.ok
  THEN [ok |-> TRUE, flavor |-> d.flavor, backend |-> d.backend, doff |-> d.data_offset,
        live |-> NoLive, leaked |-> {}, obs |-> d.obs, mem |-> d.mem,
        truncated |-> FALSE, rewound |-> FALSE, first |-> TRUE, dead |-> FALSE, na |-> FALSE, nclones |-> 0,
        \* file sessions: rw = shared writable mapping (writes reach the file), cow = private copy, ro = read-only;
        \* persist = what the file holds (state at the last step of the last rw session)
        mode |-> "rw", kind0 |-> d.kind, persist |-> [obs |-> d.obs, mem |-> d.mem, held |-> {}]]
  ELSE DeadArena

ResetCheck(a, c, d) ==
  LET res == ReservedOf(c)
      uni == UnifyEff(c, d)
      want == DataOffsetOf(res, uni)
  IN
  /\ Viol("C16", "ConstructIffPrefixFits", a, d.ok = (want <= c.cap))
  /\ IF ~d.ok
     THEN Viol("C16", "ConstructErrorKind", a, d.err \in {"InsufficientSpace", "InvalidInput"})
     ELSE
     /\ Viol("C16", "DataOffset", a,
             /\ d.data_offset = want
             /\ d.opt_data_offset = res + 1
             /\ d.opt_data_offset_unify = DataOffsetOf(res, TRUE)
             /\ d.data_offset = (IF uni THEN d.opt_data_offset_unify ELSE d.opt_data_offset)
             /\ d.obs.doff = want /\ d.obs.alloc = want)
     /\ Viol("C16", "ReservedSlice", a, d.reserved_len = res /\ d.reserved_bytes = res)
     /\ Viol("C16", "Accessors", a,
             /\ d.capacity = c.cap /\ d.obs.cap = c.cap
             /\ d.unify = uni /\ d.read_only = FALSE
             /\ d.is_map = (d.backend # "vec") /\ d.is_ondisk = (d.backend = "file")
             /\ d.is_inmemory = (d.backend # "file") /\ d.is_map_anon = (d.backend = "anon")
             /\ d.is_map_file = (d.backend = "file") /\ d.has_path = (d.backend = "file") /\ d.path_matches
             /\ d.magic_version = (IF Has(c, "magic") THEN c.magic ELSE 0) /\ d.version = 0
             /\ d.page_size = d.os_page_size
             /\ d.minimum_segment_size = c.minseg /\ d.obs.minseg = c.minseg)
     /\ Viol("C16", "RemainingIsCapMinusAllocated", a, d.obs.rem = c.cap - want)
     /\ Viol("C16", "FreshState", a, d.obs.disc = 0 /\ d.obs.fl = <<>> /\ d.obs.refs = 1
                                      /\ RangeIs(d.mem, want, c.cap, 0))
     /\ Viol("C16", "ReservedUntouched", a, RangeIs(d.mem, 0, res, ReservedPattern))

\* ------------------------------------------------------------------ state-wide memory facts
LiveIntact(live, mem) ==
  \A h \in DOMAIN live : (live[h].pat = 0 \/ live[h].ps = 0) \/ RangeIs(mem, live[h].po, live[h].po + live[h].ps, live[h].pat)
LeakedIntact(leaked, mem) ==
  \A k \in leaked : k.pat = 0 \/ k.ps = 0 \/ RangeIs(mem, k.po, k.po + k.ps, k.pat)

HandleOf(op, r, delta) ==
  [mo |-> r.mo, ms |-> r.ms, po |-> r.po, ps |-> r.ps, pat |-> r.pat, owned |-> r.owned,
   det |-> FALSE, embeds |-> delta]

\* ------------------------------------------------------------------ per-op: new state
DropFrom(live, h) == [i \in DOMAIN live \ {h} |-> live[i]]
AsLeak(hr) == [po |-> hr.po, ps |-> hr.ps, pat |-> hr.pat]

HeldOf(s) == s.leaked \cup {AsLeak(s.live[h]) : h \in DOMAIN s.live}
ModeOf(variant) == IF variant = "map_mut" THEN "rw" ELSE IF variant = "map_copy" THEN "cow" ELSE "ro"

NextArena0(op, x, s) ==
  IF ~s.ok \/ s.dead THEN s
  ELSE IF x.res.k \in {"panic", "dead", "noarena"} \/ (op.k = "reopen" /\ x.res.k # "ok") THEN [s EXCEPT !.dead = TRUE]
  ELSE
  LET s1 == [s EXCEPT !.obs = x.obs, !.mem = x.mem] IN
  IF op.k = "reopen" THEN
     \* the closing session's handles are given up; what counts afterwards is what the FILE held
     [s1 EXCEPT !.live = NoLive, !.leaked = s.persist.held \cup (IF s.mode = "rw" THEN HeldOf(s) ELSE {}),
                !.mode = ModeOf(op.variant), !.first = FALSE, !.truncated = FALSE, !.nclones = 0]
  ELSE
  IF IsAlloc(op) THEN
     IF x.res.k = "ok"
     THEN [s1 EXCEPT !.live = (x.res.h :> HandleOf(op, x.res, x.obs.refs - s.obs.refs)) @@ s.live,
                     !.first = (s.first /\ x.res.ps = 0)]
     ELSE s1
  ELSE IF op.k \in {"drop", "dealloc"} THEN
     IF x.res.k = "ok" THEN [s1 EXCEPT !.live = DropFrom(s.live, op.h)] ELSE s1
  ELSE IF op.k = "leak" THEN
     IF x.res.k = "ok" THEN [s1 EXCEPT !.live = DropFrom(s.live, op.h),
                                      !.leaked = s.leaked \cup {AsLeak(s.live[op.h])}] ELSE s1
  ELSE IF op.k = "detach" THEN
     IF x.res.k = "ok" THEN [s1 EXCEPT !.live = [s.live EXCEPT ![op.h].det = TRUE]] ELSE s1
  ELSE IF op.k = "rewind" THEN
     \* handles and detached data not entirely below the new cursor are given up by the caller
     LET keep == {h \in DOMAIN s.live : \A k \in 1..Len(x.invalidated) : x.invalidated[k] # h} IN
     [s1 EXCEPT !.live = [h \in keep |-> s.live[h]],
                !.leaked = {k \in s.leaked : k.po + k.ps <= x.obs.alloc},
                !.rewound = TRUE]
  ELSE IF op.k = "clear" THEN
     [s1 EXCEPT !.live = NoLive, !.leaked = {}, !.rewound = FALSE, !.first = TRUE]
  ELSE IF op.k = "mkclone" THEN (IF x.res.k = "ok" THEN [s1 EXCEPT !.nclones = s.nclones + 1] ELSE s1)
  ELSE IF op.k = "dropclone" THEN (IF x.res.k = "ok" THEN [s1 EXCEPT !.nclones = s.nclones - 1] ELSE s1)
  ELSE IF op.k = "truncate" THEN
     [s1 EXCEPT !.na = (s.na \/ x.res.k = "na"), !.live = NoLive, !.leaked = s.leaked \cup {AsLeak(s.live[h]) : h \in DOMAIN s.live},
                !.truncated = (s.truncated \/ x.res.k = "ok")]
  ELSE s1

\* in a shared writable session every step reaches the file
NextArena(op, x, s) ==
  LET s2 == NextArena0(op, x, s) IN
  IF s2.ok /\ ~s2.dead /\ s2.mode = "rw" /\ "obs" \in DOMAIN x
  THEN [s2 EXCEPT !.persist = [obs |-> x.obs, mem |-> x.mem, held |-> HeldOf(s2)]]
  ELSE s2

\* ------------------------------------------------------------------ close + reopen (C05) and read-only sessions (C09)
ReopenPreds(s, op, x) ==
  LET P == s.persist o == x.obs ro == op.variant \in {"map", "map_copy_ro"} IN
  IF x.res.k # "ok" THEN << <<"C05", "ReopenSucceeds", FALSE>> >>
  ELSE <<
  <<"C05", "ReopenKeepsState", o.alloc = P.obs.alloc /\ o.disc = P.obs.disc /\ o.doff = P.obs.doff /\ o.minseg = P.obs.minseg>>,
  <<"C05", "ReopenKeepsIdentity", x.descr.kind = s.kind0 /\ x.descr.magic_version = (IF Has(cfg, "magic") THEN cfg.magic ELSE 0)
                                  /\ x.descr.version = 0 /\ x.descr.is_map_file /\ x.descr.unify
                                  /\ x.descr.reserved_len = ReservedOf(cfg)>>,
  <<"C05", "ReopenKeepsBytes", Clip(x.mem, P.obs.alloc) = Clip(P.mem, P.obs.alloc)>>,
  <<"C05", "FreedStillOnTheList", o.fl = P.obs.fl /\ ~o.fltrunc>>,
  \* (a read-only mapping cannot grow the file: its capacity is at most the file length)
  <<"C05", "CapacityCoversAllocated", (ro \/ op.cap = 0 \/ o.cap = op.cap) /\ o.cap >= o.alloc /\ o.rem = o.cap - o.alloc>>,
  <<"C09", "ReadOnlyFlag", x.descr.read_only = ro>>,
  \* capacity() of a read-only arena is what the file holds (a read-only open cannot grow it): never more than the bytes
  \* of the file from the mapping offset on, whatever capacity was asked for
  <<"C16", "ReadOnlyCapacityWithinFile", ro => (o.cap <= x.file_after.len /\ x.descr.capacity <= x.file_after.len)>>,
  <<"C16", "AccessorsAfterReopen", /\ x.descr.is_map /\ x.descr.is_ondisk /\ ~x.descr.is_inmemory /\ ~x.descr.is_map_anon
                                   /\ x.descr.is_map_file /\ x.descr.has_path /\ x.descr.page_size = x.descr.os_page_size
                                   /\ x.descr.reserved_bytes = ReservedOf(cfg) /\ x.descr.data_offset = DataOffsetOf(ReservedOf(cfg), TRUE)
                                   /\ x.descr.capacity = o.cap /\ o.rem = o.cap - o.alloc>>,
  \* a private or read-only open leaves every byte that was in the file (a writable private open may append zeros
  \* when a larger capacity is requested)
  <<"C09", "NonSharedOpenLeavesFile",
       (op.variant # "map_mut") => /\ Clip(x.file_after.rle, x.file_before.len) = x.file_before.rle
                                   /\ (ro => x.file_after.len = x.file_before.len)>>,
  <<"C05", "WritableOpenKeepsAllocatedPrefix",
       /\ Clip(x.file_after.rle, P.obs.alloc) = Clip(x.file_before.rle, P.obs.alloc)
       \* (the length of the file: for the capacities C05 quantifies over -- same, larger, absent)
       /\ (op.cap = 0 \/ op.cap >= x.file_before.len) => x.file_after.len >= x.file_before.len>>
  >>

Mutator(op) == IsAlloc(op) \/ op.k \in {"discard", "clear", "setmin", "incdisc", "truncate"}
ReadOnlyPreds(s, op, x) ==
  \* a zero-sized request changes nothing: it may be granted (alloc::<()>()) or refused
  IF ~Mutator(op) \/ x.res.k \in {"skip"} \/ (IsAlloc(op) /\ ZeroReq(op) /\ x.res.k = "ok" /\ x.res.ps = 0) THEN <<>>
  ELSE <<
  <<"C09", "ReadOnlyRejects", x.res.k \in {"err_ro", "err_io", "panic", "na"}>>,
  <<"C09", "ReadOnlyLeavesStateAndBytes", ("obs" \notin DOMAIN x) \/ (SameObs(x.obs, s.obs) /\ x.mem = s.mem)>>
  >>

\* ------------------------------------------------------------------ per-op: predicates (ArenaProps)
Deallocs(x) == SelectSeq(x.api, LAMBDA r : r.k = "dealloc")
Report(a, P) == \A i \in 1..Len(P) : Viol(P[i][1], P[i][2], a, P[i][3])
CfgRec == [kind |-> KindOf(cfg), maxalign |-> MaxAlignOf(cfg), reserved |-> ReservedOf(cfg)]

CheckArena(a, op, x, s, s2) ==
  IF ~s.ok \/ s.dead \/ x.res.k \in {"dead", "noarena", "skip"} THEN TRUE
  ELSE IF x.res.k = "panic" THEN (IF s.mode = "ro" THEN TRUE ELSE Viol(PanicProp(op), "NoPanic", a, FALSE))
  \* a reopen that failed leaves no arena to observe: reported, and the arena is dead from here on (NextArena0)
  ELSE IF op.k = "reopen" /\ x.res.k # "ok" THEN Report(a, ReopenPreds(s, op, x))
  ELSE
  LET c == CfgRec r == x.res o == x.obs IN
  /\ IF op.k = "reopen" THEN Report(a, ReopenPreds(s, op, x))
     ELSE IF s.mode = "ro" THEN Report(a, ReadOnlyPreds(s, op, x))
     ELSE TRUE
  \* a call refused on a read-only session is judged by ReadOnlyPreds only (C20 / C18 / C17 ask for exactly that)
  /\ IF op.k \in {"reopen", "flush"} \/ (s.mode = "ro" /\ r.k \in {"err_ro", "err_io", "panic"}) THEN TRUE
     ELSE IF IsAlloc(op) THEN
        IF r.k = "ok"
        THEN Report(a, AllocOkPreds(c, s, op, r, o,
                 [zeroOnReturn |-> (op.k = "ab" /\ r.ps > 0) => RangeIs(x.mem0, r.po, r.po + r.ps, 0)]))
        ELSE Report(a, AllocErrPreds(c, s, op, r, o))
     ELSE IF op.k \in {"drop", "dealloc"} THEN Report(a, ReleasePreds(c, s, op, s.live[op.h], Deallocs(x), o))
     ELSE Report(a, OtherPreds(c, s, op, r, o,
                 \* the cursor lives inside the buffer in the unified layout: compare everything but the header area
                 [memSame |-> /\ Window(x.mem, 0, c.reserved) = Window(s.mem, 0, c.reserved)
                              /\ Window(x.mem, s.doff, o.cap) = Window(s.mem, s.doff, o.cap),
                  dataZero |-> RangeIs(x.mem, s.doff, o.cap, 0),
                  bytesKept |-> Clip(x.mem, s.obs.alloc) = Clip(s.mem, s.obs.alloc)]))
  /\ Report(a, StatePreds(c, s, s2, op, o,
                 [liveIntact |-> LiveIntact(s2.live, x.mem),
                  leakedIntact |-> LeakedIntact(s2.leaked, x.mem),
                  reservedOk |-> RangeIs(x.mem, 0, c.reserved, ReservedPattern)]))

\* cross-arena comparisons requested by the driver: <<i, j, property, withMem>>
Applies(op, i) == ~Has(op, "only") \/ \E k \in 1..Len(op.only) : op.only[k] = i
ResEq(r1, r2) == /\ r1.k = r2.k
                 /\ (r1.k = "ok" /\ Has(r1, "mo")) => (r1.mo = r2.mo /\ r1.ms = r2.ms /\ r1.po = r2.po /\ r1.ps = r2.ps)
                 /\ (Has(r1, "v") /\ Has(r2, "v")) => r1.v = r2.v
                 /\ (Has(r1, "ret") /\ Has(r2, "ret")) => r1.ret = r2.ret
ComparePair(p, e) ==
  LET i == p[1] j == p[2] xi == e.arenas[i] xj == e.arenas[j] IN
  IF ~(S[i].ok /\ S[j].ok) \/ S[i].dead \/ S[j].dead \/ ~Applies(e.op, i) \/ ~Applies(e.op, j)
     \* a call one flavour does not offer (truncate on sync) ends the comparison for this driver
     \/ S[i].na \/ S[j].na
     \/ xi.res.k \in {"panic", "dead"} \/ xj.res.k \in {"panic", "dead"} \/ xi.res.k = "na" \/ xj.res.k = "na"
  THEN TRUE
  ELSE /\ Viol(p[3], "SameResult", i, ResEq(xi.res, xj.res))
       \* (a failed reopen leaves nothing to observe)
       /\ (Has(xi, "obs") /\ Has(xj, "obs")) =>
            /\ Viol(p[3], "SameObservation", i, SameObs(xi.obs, xj.obs))
            /\ Viol(p[3], "SameBytes", i, p[4] => xi.mem = xj.mem)

\* ------------------------------------------------------------------ the trace machine
Init == l = 1 /\ S = <<>> /\ cfg = [none |-> TRUE]

StepReset ==
  LET e == Rec[l] IN
  /\ e.ev = "reset"
  /\ \A a \in 1..Len(e.arenas) : ResetCheck(a, e.cfg, e.arenas[a])
  /\ cfg' = e.cfg
  /\ S' = [a \in 1..Len(e.arenas) |-> InitArena(e.cfg, e.arenas[a])]
  /\ l' = l + 1

StepOp ==
  LET e == Rec[l]
      N == Len(e.arenas)
      S2 == [a \in 1..N |-> IF Applies(e.op, a) THEN NextArena(e.op, e.arenas[a], S[a]) ELSE S[a]]
  IN
  /\ e.ev = "op"
  /\ \A a \in 1..N : Applies(e.op, a) => CheckArena(a, e.op, e.arenas[a], S[a], S2[a])
  /\ (Has(cfg, "compare")) => \A k \in 1..Len(cfg.compare) : ComparePair(cfg.compare[k], e)
  /\ S' = S2
  /\ UNCHANGED cfg
  /\ l' = l + 1

StepSkip == /\ Rec[l].ev \notin {"reset", "op"} /\ l' = l + 1 /\ UNCHANGED <<S, cfg>>

Next == l <= Len(Rec) /\ (StepReset \/ StepOp \/ StepSkip)
Spec == Init /\ [][Next]_vars

\* acceptance: the whole trace was consumed (otherwise the tooling, not the code, is at fault)
Consumed == TLCGet("stats").diameter - 1 = Len(Rec)
Post == IF Consumed THEN PrintT(<<"TRACE-CONSUMED", Len(Rec)>>)
        ELSE PrintT(<<"TRACE-STUCK", TLCGet("stats").diameter, Len(Rec)>>) /\ FALSE
=============================================================================
