---------------------------- MODULE TraceSeqProp ----------------------------
(***************************************************************************)
(* Property-level trace specification for sequential executions of the     *)
(* real arenas (harness/src/seq.rs).  It is a *monitor*: the state follows *)
(* what the code reported, and every predicate of the listed properties is *)
(* evaluated on every event; a false predicate prints                      *)
(*     <<"VIOL", property, predicate, line, arena index>>                  *)
(* and the run continues, so the rest of the trace is still checked.       *)
(* The predicates say only what the properties say: a different but        *)
(* correct implementation (other tie-breaks, smarter alignment) passes.    *)
(* All guards are in expression context (no action-level disjunction).     *)
(***************************************************************************)
EXTENDS Common, TLC, Json, IOUtils

Rec == ndJsonDeserialize(IOEnv.TRACE)

VARIABLES l, S, cfg
vars == <<l, S, cfg>>

Has(r, f) == f \in DOMAIN r
Viol(prop, pred, a, ok) == IF ok THEN TRUE ELSE PrintT(<<"VIOL", prop, pred, l, a>>)

NoLive == [x \in {} |-> 0]
DeadArena == [ok |-> FALSE]

\* ------------------------------------------------------------------ reset
UnifyEff(c, d) == (Has(c, "unify") /\ c.unify) \/ d.backend = "file"
ReservedOf(c) == IF Has(c, "reserved") THEN c.reserved ELSE 0
MaxAlignOf(c) == IF Has(c, "maxalign") THEN c.maxalign ELSE 8
KindOf(c) == IF Has(c, "kind") THEN c.kind ELSE "opt"

InitArena(c, d) ==
  IF d.ok
  THEN [ok |-> TRUE, flavor |-> d.flavor, backend |-> d.backend, doff |-> d.data_offset,
        live |-> NoLive, leaked |-> {}, obs |-> d.obs, mem |-> d.mem,
        truncated |-> FALSE, rewound |-> FALSE, first |-> TRUE, dead |-> FALSE]
  ELSE DeadArena

ResetCheck(a, c, d) ==
  LET res == ReservedOf(c)
      uni == UnifyEff(c, d)
      want == DataOffsetOf(res, uni)
  IN
  /\ Viol("C16", "ConstructIffPrefixFits", a, d.ok = (want <= c.cap))
  /\ IF ~d.ok
     THEN Viol("C16", "ConstructErrorKind", a, d.err \in {"InsufficientSpace", "InvalidInput"})
     ELSE
     /\ Viol("C16", "DataOffset", a,
             /\ d.data_offset = want
             /\ d.opt_data_offset = res + 1
             /\ d.opt_data_offset_unify = DataOffsetOf(res, TRUE)
             /\ d.data_offset = (IF uni THEN d.opt_data_offset_unify ELSE d.opt_data_offset)
             /\ d.obs.doff = want /\ d.obs.alloc = want)
     /\ Viol("C16", "ReservedSlice", a, d.reserved_len = res /\ d.reserved_bytes = res)
     /\ Viol("C16", "Accessors", a,
             /\ d.capacity = c.cap /\ d.obs.cap = c.cap
             /\ d.unify = uni /\ d.read_only = FALSE
             /\ d.is_map = (d.backend # "vec") /\ d.is_ondisk = (d.backend = "file")
             /\ d.is_inmemory = (d.backend # "file") /\ d.is_map_anon = (d.backend = "anon")
             /\ d.is_map_file = (d.backend = "file") /\ d.has_path = (d.backend = "file") /\ d.path_matches
             /\ d.magic_version = (IF Has(c, "magic") THEN c.magic ELSE 0) /\ d.version = 0
             /\ d.page_size = d.os_page_size
             /\ d.minimum_segment_size = c.minseg /\ d.obs.minseg = c.minseg)
     /\ Viol("C16", "RemainingIsCapMinusAllocated", a, d.obs.rem = c.cap - want)
     /\ Viol("C16", "FreshState", a, d.obs.disc = 0 /\ d.obs.fl = <<>> /\ d.obs.refs = 1
                                      /\ RangeIs(d.mem, want, c.cap, 0))
     /\ Viol("C16", "ReservedUntouched", a, RangeIs(d.mem, 0, res, ReservedPattern))

\* ------------------------------------------------------------------ helpers on ops
IsAlloc(op) == op.k \in {"ab", "at", "aa"}
TSize(op) == IF op.k = "ab" THEN 0 ELSE op.s
TAlign(op) == IF op.k = "ab" THEN 1 ELSE op.a
Extra(op) == IF op.k = "at" THEN 0 ELSE op.n
ZeroReq(op) == TSize(op) = 0 /\ Extra(op) = 0
\* bytes the fast path takes from the cursor
NeedFresh(op, cur) == IF TSize(op) = 0 THEN Extra(op) ELSE Align(cur, TAlign(op)) + TSize(op) + Extra(op) - cur
\* the most a correct implementation may ask a segment for
NeedMax(op) == IF TSize(op) = 0 THEN Extra(op) ELSE TSize(op) + TAlign(op) - 1 + Extra(op)

ShapeOk(op, r) ==
  IF TSize(op) = 0 THEN r.ps = Extra(op)
  ELSE IF op.k = "at" THEN r.ps = op.s /\ r.po % op.a = 0
  ELSE r.po % op.a = 0 /\ r.ps >= op.s + op.n

HandleOf(op, r, delta) ==
  [mo |-> r.mo, ms |-> r.ms, po |-> r.po, ps |-> r.ps, pat |-> r.pat, owned |-> r.owned,
   det |-> FALSE, embeds |-> delta]

\* ------------------------------------------------------------------ state-wide predicates
LiveSet(s) == {s.live[h] : h \in DOMAIN s.live}

LiveIntact(live, mem) ==
  \A h \in DOMAIN live : (live[h].pat = 0 \/ live[h].ps = 0) \/ RangeIs(mem, live[h].po, live[h].po + live[h].ps, live[h].pat)
LeakedIntact(leaked, mem) ==
  \A k \in leaked : k.pat = 0 \/ k.ps = 0 \/ RangeIs(mem, k.po, k.po + k.ps, k.pat)

Ordered(kind, x, y) == IF kind = "opt" THEN x >= y ELSE IF kind = "pes" THEN x <= y ELSE TRUE

FLShape(kind, doff, fl, obs, rewound) ==
  /\ ~obs.fltrunc
  /\ (kind = "none") => (fl = <<>>)
  /\ \A i \in 1..Len(fl) : /\ fl[i][1] % 8 = 0 /\ doff <= fl[i][1]
                           /\ Seg(fl[i]).hi <= obs.cap
                           /\ (rewound \/ Seg(fl[i]).hi <= obs.alloc)
  /\ \A i, j \in 1..Len(fl) : i < j => (Disjoint(Seg(fl[i]), Seg(fl[j])) /\ Ordered(kind, fl[i][2], fl[j][2]))
FLvsLive(fl, live) ==
  \A i \in 1..Len(fl) : \A h \in DOMAIN live : Disjoint(Seg(fl[i]), Acc(live[h]))
FLvsLeaked(fl, leaked) ==
  \A i \in 1..Len(fl) : \A k \in leaked : Disjoint(Seg(fl[i]), Acc(k))

SameObs(o1, o2) == /\ o1.alloc = o2.alloc /\ o1.disc = o2.disc /\ o1.rem = o2.rem /\ o1.fl = o2.fl
                   /\ o1.cap = o2.cap /\ o1.minseg = o2.minseg

\* ------------------------------------------------------------------ per-op: new state
DropFrom(live, h) == [i \in DOMAIN live \ {h} |-> live[i]]
AsLeak(hr) == [po |-> hr.po, ps |-> hr.ps, pat |-> hr.pat]

NextArena(op, x, s) ==
  IF ~s.ok \/ s.dead THEN s
  ELSE IF x.res.k \in {"panic", "dead", "noarena"} THEN [s EXCEPT !.dead = TRUE]
  ELSE
  LET s1 == [s EXCEPT !.obs = x.obs, !.mem = x.mem] IN
  IF IsAlloc(op) THEN
     IF x.res.k = "ok"
     THEN [s1 EXCEPT !.live = (x.res.h :> HandleOf(op, x.res, x.obs.refs - s.obs.refs)) @@ s.live,
                     !.first = (s.first /\ x.res.ps = 0)]
     ELSE s1
  ELSE IF op.k \in {"drop", "dealloc"} THEN
     IF x.res.k = "ok" THEN [s1 EXCEPT !.live = DropFrom(s.live, op.h)] ELSE s1
  ELSE IF op.k = "leak" THEN
     IF x.res.k = "ok" THEN [s1 EXCEPT !.live = DropFrom(s.live, op.h),
                                      !.leaked = s.leaked \cup {AsLeak(s.live[op.h])}] ELSE s1
  ELSE IF op.k = "detach" THEN
     IF x.res.k = "ok" THEN [s1 EXCEPT !.live = [s.live EXCEPT ![op.h].det = TRUE]] ELSE s1
  ELSE IF op.k = "rewind" THEN
     \* handles and leaked ranges not entirely below the new cursor are given up by the caller
     LET keep == {h \in DOMAIN s.live : \A k \in 1..Len(x.invalidated) : x.invalidated[k] # h} IN
     [s1 EXCEPT !.live = [h \in keep |-> s.live[h]],
                !.leaked = {k \in s.leaked : k.po + k.ps <= x.obs.alloc},
                !.rewound = TRUE]
  ELSE IF op.k = "clear" THEN
     [s1 EXCEPT !.live = NoLive, !.leaked = {}, !.rewound = FALSE, !.first = TRUE]
  ELSE IF op.k = "truncate" THEN
     IF x.res.k = "na" THEN [s1 EXCEPT !.live = NoLive, !.leaked = s.leaked \cup {AsLeak(s.live[h]) : h \in DOMAIN s.live}]
     ELSE [s1 EXCEPT !.live = NoLive, !.leaked = s.leaked \cup {AsLeak(s.live[h]) : h \in DOMAIN s.live},
                     !.truncated = TRUE]
  ELSE s1

\* ------------------------------------------------------------------ per-op: predicates
Deallocs(x) == SelectSeq(x.api, LAMBDA r : r.k = "dealloc")

AllocOkChecks(a, op, x, s, s2) ==
  LET r == x.res
      fl0 == s.obs.fl
      fresh == r.ps = 0 \/ Min(r.mo, r.po) >= s.obs.alloc
      segIdx == {i \in 1..Len(fl0) : Inside(Acc(r), Seg(fl0[i]))}
      kind == KindOf(cfg)
  IN
  /\ Viol("C03", "ShapeOk", a, ShapeOk(op, r))
  /\ Viol("C03", "AddressAligned", a,
          (r.amod < 0 \/ TSize(op) = 0 \/ TAlign(op) > MaxAlignOf(cfg)) \/ r.amod % TAlign(op) = 0)
  /\ Viol("C03", "PointerMatchesOffset", a, r.ptr_off < 0 \/ r.ptr_off = r.po)
  /\ Viol("C03", "ZeroSizedTakesNothing", a,
          ZeroReq(op) => (r.ps = 0 /\ x.obs.alloc = s.obs.alloc /\ x.obs.fl = s.obs.fl))
  /\ Viol("C01", "NewDisjointFromLive", a,
          \A h \in DOMAIN s.live : Disjoint(Acc(r), Acc(s.live[h])))
  /\ Viol("C13", "NewDisjointFromDetached", a, \A k \in s.leaked : Disjoint(Acc(r), Acc(k)))
  /\ Viol("C01", "InBounds", a, r.ps = 0 \/ (s.doff <= r.po /\ r.po + r.ps <= x.obs.alloc /\ x.obs.alloc <= x.obs.cap))
  /\ Viol("C01", "ZstOccupiesNothing", a, (TSize(op) = 0 /\ Extra(op) = 0) => r.ps = 0)
  /\ Viol("C16", "FirstAllocationAtDataOffset", a,
          (s.first /\ r.ps > 0 /\ s.obs.alloc = s.doff /\ s.obs.fl = <<>>) => r.po = Align(s.doff, TAlign(op)))
  /\ Viol("C08", "ZeroOnReturn", a, (op.k = "ab" /\ r.ps > 0) => RangeIs(x.mem0, r.po, r.po + r.ps, 0))
  /\ Viol("C10", "ReuseOnlyFromFreeSegment", a, fresh \/ segIdx # {})
  /\ Viol("C10", "NoneNeverReuses", a, (kind = "none") => fresh)
  /\ Viol("C10", "OptimisticServesLargest", a, (kind = "opt" /\ ~fresh /\ segIdx # {}) => 1 \in segIdx)
  /\ Viol("C10", "PessimisticServesSmallestFit", a,
          (kind = "pes" /\ ~fresh /\ segIdx # {}) =>
             \A i \in segIdx : \A j \in 1..Len(fl0) : fl0[j][2] < fl0[i][2] => fl0[j][2] < NeedMax(op))
  /\ Viol("C10", "RemainderHoldsMinimumSegment", a,
          \A i \in 1..Len(x.obs.fl) :
             (\A j \in 1..Len(fl0) : fl0[j] # x.obs.fl[i]) => x.obs.fl[i][2] >= x.obs.minseg)
  /\ Viol("C18", "FitsNewCapacity", a, s.truncated => (r.ps = 0 \/ r.po + r.ps <= x.obs.cap))
  /\ Viol("C13", "OwnedEmbedsOneArenaValue", a,
          LET d == x.obs.refs - s.obs.refs IN
          IF r.owned THEN d \in {0, 1} /\ (r.ms > 0 => d = 1) ELSE d = 0)

AllocErrChecks(a, op, x, s) ==
  LET fl0 == s.obs.fl
      kind == KindOf(cfg)
  IN
  /\ Viol("C04", "CleanErrorKind", a, x.res.k \in {"err_space", "err_ro"})
  /\ Viol("C04", "FailedCallChangesNothing", a, SameObs(x.obs, s.obs))
  /\ Viol("C03", "ZeroSizedAlwaysSucceeds", a, ~ZeroReq(op))
  /\ Viol("C10", "OptimisticFailsOnlyIfLargestTooSmall", a,
          kind = "opt" => (fl0 = <<>> \/ fl0[1][2] < NeedMax(op)))
  /\ Viol("C10", "PessimisticFailsOnlyIfNoneFits", a,
          kind = "pes" => \A j \in 1..Len(fl0) : fl0[j][2] < NeedMax(op))
  /\ Viol("C18", "SucceedsIfFitsNewCapacity", a,
          s.truncated => s.obs.alloc + NeedFresh(op, s.obs.alloc) > s.obs.cap)

ReleaseChecks(a, op, x, s) ==
  LET hr == s.live[op.h]
      ds == Deallocs(x)
      kind == KindOf(cfg)
      onTop == hr.mo + hr.ms = s.obs.alloc
      becameSeg == \E i \in 1..Len(x.obs.fl) : (\A j \in 1..Len(s.obs.fl) : s.obs.fl[j] # x.obs.fl[i])
  IN
  /\ Viol("C13", "ReleasesOwnExtentOnce", a,
          IF op.k = "dealloc" THEN TRUE
          ELSE IF hr.det THEN Len(ds) = 0
          ELSE IF hr.ms > 0 THEN Len(ds) = 1 /\ ds[1].off = hr.mo /\ ds[1].size = hr.ms
          ELSE Len(ds) = 0 \/ (Len(ds) = 1 /\ ds[1].off = hr.mo /\ ds[1].size = hr.ms))
  /\ Viol("C13", "DetachedReleasesNothing", a,
          (op.k = "drop" /\ hr.det) => (x.obs.alloc = s.obs.alloc /\ x.obs.disc = s.obs.disc /\ x.obs.fl = s.obs.fl))
  /\ Viol("C13", "RefsReturned", a, x.obs.refs = s.obs.refs - hr.embeds)
  /\ Viol("C20", "NoneCountsNonTopRelease", a,
          (kind = "none" /\ ~(op.k = "drop" /\ hr.det) /\ ~onTop /\ hr.ms > 0) => x.obs.disc = s.obs.disc + hr.ms)
  /\ Viol("C20", "TooSmallReleaseCounted", a,
          (kind # "none" /\ ~(op.k = "drop" /\ hr.det) /\ ~onTop /\ hr.ms > 0 /\ ~becameSeg /\ x.obs.alloc = s.obs.alloc)
             => (x.obs.disc = s.obs.disc + hr.ms /\ x.obs.fl = s.obs.fl))

Clamp(v, lo, hi) == IF v < lo THEN lo ELSE IF v > hi THEN hi ELSE v
Denote(op, s) == IF op.p = "start" THEN op.v ELSE IF op.p = "end" THEN s.obs.cap - op.v ELSE s.obs.alloc + op.v

OtherChecks(a, op, x, s) ==
  IF op.k = "discard" THEN
     /\ Viol("C20", "DiscardReturnsSum", a, x.res.k = "ok" /\ x.res.v = SumSizes(s.obs.fl))
     /\ Viol("C20", "DiscardAccounts", a, x.obs.disc = s.obs.disc + SumSizes(s.obs.fl))
     /\ Viol("C20", "DiscardEmpties", a, x.obs.fl = <<>> /\ x.obs.alloc = s.obs.alloc)
  ELSE IF op.k = "incdisc" THEN
     Viol("C20", "IncreaseDiscardedAdds", a, x.obs.disc = s.obs.disc + op.v /\ x.obs.alloc = s.obs.alloc /\ x.obs.fl = s.obs.fl)
  ELSE IF op.k = "rewind" THEN
     /\ Viol("C17", "RewindClamps", a, x.obs.alloc = Clamp(Denote(op, s), s.doff, s.obs.cap))
     /\ Viol("C17", "RewindChangesNothingElse", a,
             /\ x.obs.disc = s.obs.disc /\ x.obs.fl = s.obs.fl /\ x.obs.minseg = s.obs.minseg
             /\ x.obs.cap = s.obs.cap /\ x.mem = s.mem)
  ELSE IF op.k = "clear" THEN
     /\ Viol("C17", "ClearResets", a, x.res.k = "ok" /\ x.obs.alloc = s.doff /\ x.obs.fl = <<>> /\ x.obs.disc = 0
                                       /\ x.obs.minseg = s.obs.minseg /\ x.obs.cap = s.obs.cap
                                       /\ x.obs.rem = s.obs.cap - s.doff)
     /\ Viol("C17", "ClearZeroesData", a, RangeIs(x.mem, s.doff, x.obs.cap, 0))
  ELSE IF op.k = "truncate" /\ x.res.k # "na" THEN
     /\ Viol("C18", "TruncateSetsCapacity", a, x.res.k = "ok" /\ x.obs.cap = Max(op.v, s.obs.alloc))
     /\ Viol("C18", "TruncateKeepsState", a, x.obs.alloc = s.obs.alloc /\ x.obs.disc = s.obs.disc /\ x.obs.fl = s.obs.fl
                                              /\ x.obs.minseg = s.obs.minseg)
     /\ Viol("C18", "TruncateKeepsBytes", a, Clip(x.mem, s.obs.alloc) = Clip(s.mem, s.obs.alloc))
  ELSE TRUE

PanicProp(op) == IF IsAlloc(op) THEN "C04" ELSE IF op.k \in {"rewind", "clear"} THEN "C17"
                 ELSE IF op.k = "truncate" THEN "C18" ELSE IF op.k \in {"discard", "incdisc"} THEN "C20" ELSE "C13"

CheckArena(a, op, x, s, s2) ==
  IF ~s.ok \/ s.dead \/ x.res.k \in {"dead", "noarena", "skip"} THEN TRUE
  ELSE IF x.res.k = "panic" THEN Viol(PanicProp(op), "NoPanic", a, FALSE)
  ELSE
  /\ IF IsAlloc(op) THEN (IF x.res.k = "ok" THEN AllocOkChecks(a, op, x, s, s2) ELSE AllocErrChecks(a, op, x, s))
     ELSE IF op.k \in {"drop", "dealloc"} THEN ReleaseChecks(a, op, x, s)
     ELSE OtherChecks(a, op, x, s)
  \* state-wide, after every step
  /\ Viol("C01", "LiveIntact", a, LiveIntact(s2.live, x.mem))
  /\ Viol("C13", "DetachedDataIntact", a, LeakedIntact(s2.leaked, x.mem))
  /\ Viol("C16", "ReservedUntouched", a, RangeIs(x.mem, 0, ReservedOf(cfg), ReservedPattern))
  /\ Viol("C16", "RemainingIsCapMinusAllocated", a, x.obs.rem = x.obs.cap - x.obs.alloc /\ x.obs.doff = s.doff)
  /\ Viol("C10", "FreeListWellFormed", a, FLShape(KindOf(cfg), s.doff, x.obs.fl, x.obs, s2.rewound))
  /\ Viol("C10", "FreeListDisjointFromLive", a, FLvsLive(x.obs.fl, s2.live))
  /\ Viol("C13", "FreeListDisjointFromDetached", a, FLvsLeaked(x.obs.fl, s2.leaked))
  /\ Viol("C20", "DiscardedMonotone", a, op.k = "clear" \/ x.obs.disc >= s.obs.disc)
  /\ Viol("C13", "RefsCountArenaValues", a,
          x.obs.refs = 1 + Cardinality({h \in DOMAIN s2.live : s2.live[h].embeds = 1}))

\* cross-arena comparisons requested by the driver: <<i, j, property, withMem>>
Applies(op, i) == ~Has(op, "only") \/ \E k \in 1..Len(op.only) : op.only[k] = i
ResEq(r1, r2) == /\ r1.k = r2.k
                 /\ (r1.k = "ok" /\ Has(r1, "mo")) => (r1.mo = r2.mo /\ r1.ms = r2.ms /\ r1.po = r2.po /\ r1.ps = r2.ps)
                 /\ (Has(r1, "v") /\ Has(r2, "v")) => r1.v = r2.v
                 /\ (Has(r1, "ret") /\ Has(r2, "ret")) => r1.ret = r2.ret
ComparePair(p, e) ==
  LET i == p[1] j == p[2] xi == e.arenas[i] xj == e.arenas[j] IN
  IF ~(S[i].ok /\ S[j].ok) \/ S[i].dead \/ S[j].dead \/ ~Applies(e.op, i) \/ ~Applies(e.op, j)
     \/ xi.res.k \in {"panic", "dead"} \/ xj.res.k \in {"panic", "dead"} \/ xi.res.k = "na" \/ xj.res.k = "na"
  THEN TRUE
  ELSE /\ Viol(p[3], "SameResult", i, ResEq(xi.res, xj.res))
       /\ Viol(p[3], "SameObservation", i, SameObs(xi.obs, xj.obs))
       /\ Viol(p[3], "SameBytes", i, p[4] => xi.mem = xj.mem)

\* ------------------------------------------------------------------ the trace machine
Init == l = 1 /\ S = <<>> /\ cfg = [none |-> TRUE]

StepReset ==
  LET e == Rec[l] IN
  /\ e.ev = "reset"
  /\ \A a \in 1..Len(e.arenas) : ResetCheck(a, e.cfg, e.arenas[a])
  /\ cfg' = e.cfg
  /\ S' = [a \in 1..Len(e.arenas) |-> InitArena(e.cfg, e.arenas[a])]
  /\ l' = l + 1

StepOp ==
  LET e == Rec[l]
      N == Len(e.arenas)
      S2 == [a \in 1..N |-> IF Applies(e.op, a) THEN NextArena(e.op, e.arenas[a], S[a]) ELSE S[a]]
  IN
  /\ e.ev = "op"
  /\ \A a \in 1..N : Applies(e.op, a) => CheckArena(a, e.op, e.arenas[a], S[a], S2[a])
  /\ (Has(cfg, "compare")) => \A k \in 1..Len(cfg.compare) : ComparePair(cfg.compare[k], e)
  /\ S' = S2
  /\ UNCHANGED cfg
  /\ l' = l + 1

StepSkip == /\ Rec[l].ev \notin {"reset", "op"} /\ l' = l + 1 /\ UNCHANGED <<S, cfg>>

Next == l <= Len(Rec) /\ (StepReset \/ StepOp \/ StepSkip)
Spec == Init /\ [][Next]_vars

\* acceptance: the whole trace was consumed (otherwise the tooling, not the code, is at fault)
Consumed == TLCGet("stats").diameter - 1 = Len(Rec)
Post == IF Consumed THEN PrintT(<<"TRACE-CONSUMED", Len(Rec)>>)
        ELSE PrintT(<<"TRACE-STUCK", TLCGet("stats").diameter, Len(Rec)>>) /\ FALSE
=============================================================================
