SPECIFICATION Spec
CONSTANTS
  Variant = "repaired"
  MaxUsize = 255
  Cap = 40
  DataOffset = 1
  CheckedSet = {TRUE, FALSE}
INVARIANT TypeOK
CHECK_DEADLOCK FALSE
