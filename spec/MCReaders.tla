------------------------------ MODULE MCReaders ------------------------------
(***************************************************************************)
(* Exhaustive check of the Readers machine at width MaxUsize: every        *)
(* allocated() in DataOffset..Cap, every offset 0..MaxUsize, every SIZE    *)
(* and byte order, both kinds of build.  Every transition evaluates the    *)
(* C15 predicates on what the machine returns, and the machine must never  *)
(* touch an offset at or above allocated().                                *)
(***************************************************************************)
EXTENDS Readers, TLC, Json, FiniteSets, SequencesExt

CONSTANTS Variant, MaxUsize, Cap, DataOffset, CheckedSet

VARIABLES alloc, checked, last
vars == <<alloc, checked, last>>

\* memory: terminators (< 128) at every third offset, continuation bytes elsewhere
Mem == [i \in 1..Cap |-> IF i % 3 = 0 THEN i % 128 ELSE 128 + (i % 128)]
WinAt(off, n) == IF off >= Cap THEN <<>> ELSE [i \in 1..MinOf(n, Cap - off) |-> Mem[off + i]]

FixedTypes == {"u8", "u16", "i32", "u64", "i128"}
VarTypes == {"u16", "i32", "u64", "u128"}
Ops == {[k |-> "rd", ty |-> t, ord |-> o, off |-> f] : t \in FixedTypes, o \in {"be", "le"}, f \in 0..MaxUsize}
       \cup {[k |-> "rdv", ty |-> t, ord |-> "be", off |-> f] : t \in VarTypes, f \in 0..MaxUsize}
       \cup {[k |-> "lens", ty |-> "u8", ord |-> "be", off |-> 0]}

\* what the machine returns, in the shape the harness logs
Run(op) ==
  IF op.k = "rd"
  THEN LET r == ReadFixed(alloc, op.off, Size(op.ty), MaxUsize, checked, Variant) IN
       [r |-> r, res |-> IF r.k = "ok" THEN [k |-> "ok", v |-> Dec(op.ord, WinAt(op.off, Size(op.ty)), TRUE)] ELSE [k |-> r.k]]
  ELSE IF op.k = "rdv"
  THEN LET r == ReadVarint(alloc, op.off, MaxLen(op.ty), Mem) IN
       [r |-> r, res |-> IF r.k = "ok" THEN [k |-> "ok", n |-> r.n, v |-> WinAt(op.off, r.n)] ELSE [k |-> r.k]]
  ELSE [r |-> Touch(0, 0), res |-> [k |-> "ok", allocated_memory |-> alloc, data |-> alloc - DataOffset, memory |-> Cap]]

\* reference decode of the clipped window, as the harness logs it
RefOf(op) ==
  LET w == VarintWindow(alloc, op.off, MaxLen(op.ty))
      t == Terminator(WinAt(op.off, w)) IN
  IF t = 0 THEN [k |-> "err"] ELSE [k |-> "ok", n |-> t, v |-> WinAt(op.off, t)]

PredsOf(op, x) ==
  (IF op.k = "rd" THEN FixedPreds(alloc, op, x.res, WinAt(op.off, Size(op.ty)))
   ELSE IF op.k = "rdv" THEN VarintPreds(alloc, op, x.res, WinAt(op.off, MaxLen(op.ty)), RefOf(op))
   ELSE LensPreds(alloc, DataOffset, Cap, x.res))
  \o <<PR("NeverTouchesAtOrAboveAllocated", x.r.hi <= alloc)>>

Failing(Ps) == {<<Ps[i][1], Ps[i][2]>> : i \in {i \in 1..Len(Ps) : ~Ps[i][3]}}
ReportModel(Ps, op) ==
  IF Failing(Ps) = {} THEN TRUE
  ELSE IF TLCGet(42) < 300
       THEN PrintT(ToJson([modelviol |-> SetToSeq(Failing(Ps)), alloc |-> alloc, checked |-> checked, op |-> op]))
            /\ TLCSet(42, TLCGet(42) + 1)
       ELSE TRUE

Init == alloc = DataOffset /\ checked \in CheckedSet /\ last = "init" /\ TLCSet(42, 0)

Grow == /\ \E n \in 1..(Cap - alloc) : alloc' = alloc + n
        /\ last' = "alloc"
        /\ UNCHANGED checked

Read == /\ \E op \in Ops : ReportModel(PredsOf(op, Run(op)), op) /\ last' = op.k
        /\ UNCHANGED <<alloc, checked>>

Next == Grow \/ Read
Spec == Init /\ [][Next]_vars

TypeOK == alloc \in DataOffset..Cap
=============================================================================
