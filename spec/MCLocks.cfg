SPECIFICATION Spec
CONSTANTS
  Sessions = {1, 2, 3}
  MaxVals = 2
  K1 = "map_mut"
  K2 = "map_mut"
  K3 = "map"
  Emit = FALSE
VIEW View
INVARIANTS Mutex OpenHold FilesHold SureIsHeld HeldIsMaybe
CHECK_DEADLOCK FALSE
