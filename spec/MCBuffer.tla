------------------------------ MODULE MCBuffer ------------------------------
(***************************************************************************)
(* Exhaustive exploration of the Buffer machine: every buffer layout of    *)
(* Configs (fresh, aligned and recycled space: po = mo and po > mo), every *)
(* fill level, every call of the menu, up to MaxLen calls.  In every       *)
(* transition all C14 predicates of Buffer.tla are evaluated; a false one  *)
(* prints the history ("modelviol") and exploration goes on.               *)
(* With Emit = TRUE every explored transition prints the configuration and *)
(* the call sequence that leads to it: the drivers replayed on the code.   *)
(***************************************************************************)
EXTENDS Buffer, TLC, Json, FiniteSets, SequencesExt

CONSTANTS Variant,      \* "repaired" | "orig"
          Pres,         \* bytes allocated before the buffer (cursor residues)
          Ns,           \* requested sizes
          Aligns,       \* alignments of alloc_aligned_bytes::<T>(n), T = (size a, align a)
          Recycled,     \* also buffers from recycled segments (accessible part 8 bytes after the allocation offset)
          NLEs,         \* endianness of the target: subset of BOOLEAN
          MaxLen, Emit

VARIABLES st, mon, cfg, hist
vars == <<st, mon, cfg, hist>>
View == <<st, mon, cfg>>

TailLen == 20   \* neighbouring bytes after the buffer (room for the widest stray write)

Configs ==
  {[src |-> "fresh", pre |-> p, a |-> 1, n |-> n] : p \in Pres, n \in Ns}
  \cup {[src |-> "aligned", pre |-> p, a |-> a, n |-> n] : p \in Pres, a \in Aligns, n \in Ns}
  \cup (IF Recycled THEN {[src |-> "recycled", pre |-> p, a |-> 1, n |-> n] : p \in {7}, n \in Ns} ELSE {})

\* non-unified Vec arena: data offset 1
Layout(c) ==
  LET mo == 1 + c.pre IN
  CASE c.src = "fresh" -> [mo |-> mo, ms |-> c.n, po |-> mo, cap |-> c.n]
    [] c.src = "aligned" -> LET po == AlignUp(mo, c.a) IN [mo |-> mo, ms |-> po - mo + c.a + c.n, po |-> po, cap |-> c.a + c.n]
    [] c.src = "recycled" -> [mo |-> mo, ms |-> c.n + 8, po |-> mo + 8, cap |-> c.n]

NewState(c) ==
  LET L == Layout(c) IN
  [mem |-> [i \in 1..(L.po + L.cap + TailLen) |-> IF i > L.po /\ i <= L.po + L.cap THEN 204 ELSE 161],
   mo |-> L.mo, ms |-> L.ms, po |-> L.po, cap |-> L.cap, len |-> 0]

CRec == [po |-> st.po, cap |-> st.cap, bmod |-> 0, nle |-> cfg.nle]
ObsOf(s) == [len |-> s.len, buf |-> BufOf(s), out |-> OutOf(s)]

Val(ty) == CASE Size(ty) = 1 -> <<1>> [] Size(ty) = 2 -> <<1, 2>> [] Size(ty) = 4 -> <<1, 2, 3, 4>>
             [] Size(ty) = 8 -> <<1, 2, 3, 4, 5, 6, 7, 8>>
IntTypes == {"u8", "u16", "i32", "u64"}
Ords == {"be", "le", "ne"}
TMenu == {<<0, 1>>, <<1, 1>>, <<3, 1>>, <<2, 2>>, <<4, 4>>, <<8, 8>>}
Bytes(n) == [i \in 1..n |-> 8 + i]

Menu(s) ==
  {[k |-> "put", ty |-> t, ord |-> o, v |-> Val(t)] : t \in IntTypes, o \in Ords}
  \cup {[k |-> "get", ty |-> t, ord |-> o] : t \in IntTypes, o \in Ords}
  \cup {[k |-> "slice", b |-> Bytes(n)] : n \in {0, 1, 3}}
  \cup {[k |-> "setlen", n |-> n] : n \in 0..(s.cap + 1)}
  \cup {[k |-> "align", s |-> t[1], a |-> t[2]] : t \in TMenu}
  \cup {[k |-> "putal", s |-> t[1], a |-> t[2], b |-> Bytes(t[1])] : t \in TMenu}
  \cup {[k |-> "putt", s |-> t[1], a |-> t[2], b |-> Bytes(t[1])] : t \in {t \in TMenu : (s.po + s.len) % t[2] = 0}}
  \cup {[k |-> "putv", ty |-> "u32", v |-> e, enc |-> e] : e \in {<<5>>, <<129, 6>>}}
  \cup {[k |-> "getv", ty |-> "u32"]}

Init == /\ cfg \in {[c |-> c, nle |-> e] : c \in Configs, e \in NLEs}
        /\ st = NewState(cfg.c)
        /\ mon = Mon0
        /\ hist = <<>>
        /\ TLCSet(42, 0)

Failing(Ps) == {<<Ps[i][1], Ps[i][2]>> : i \in {i \in 1..Len(Ps) : ~Ps[i][3]}}
ReportModel(Ps, h) ==
  IF Failing(Ps) = {} THEN TRUE
  ELSE IF TLCGet(42) < 3000
       THEN PrintT(ToJson([modelviol |-> SetToSeq(Failing(Ps)), cfg |-> cfg, history |-> h])) /\ TLCSet(42, TLCGet(42) + 1)
       ELSE TRUE

Next ==
  /\ Len(hist) < MaxLen
  /\ st.len <= st.cap          \* a buffer past its capacity is already wrong: nothing is explored from there
  /\ \E op \in Menu(st) :
       LET r == Apply(st, op, cfg.nle, Variant)
           pre == ObsOf(st) post == ObsOf(r.st)
           Ps == Preds(CRec, mon, pre, op, r.res, post) IN
       /\ ReportModel(Ps, Append(hist, op))
       /\ st' = r.st
       /\ mon' = MonNext(mon, pre, op, r.res, post)
       /\ hist' = Append(hist, op)
       /\ UNCHANGED cfg
       /\ (Emit => PrintT(ToJson([drv |-> hist', cfg |-> cfg])))

Spec == Init /\ [][Next]_vars

\* state invariants of the repaired machine
LenWithinCap == st.len <= st.cap
ShapeKept == Len(st.mem) = st.po + st.cap + TailLen
NeighboursIntact == \A i \in 1..Len(st.mem) : (i <= st.po \/ i > st.po + st.cap) => st.mem[i] = 161
\* algebra the round-trip clause rests on
RoundTripAlgebra == \A t \in IntTypes, o \in Ords : Dec(o, Enc(o, Val(t), cfg.nle), cfg.nle) = Val(t)
=============================================================================
