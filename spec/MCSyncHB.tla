------------------------------ MODULE MCSyncHB ------------------------------
(***************************************************************************)
(* C12 over EVERY interleaving of a scenario: the happens-before           *)
(* bookkeeping of HB.tla carried along ArenaSync, with the memory          *)
(* orderings of the micro-op table (which TraceSyncImpl compares with the  *)
(* orderings the code really passes).  Invariant NoRace.                   *)
(***************************************************************************)
EXTENDS ArenaSync
H == INSTANCE HB

VARIABLES hb, sched
hvars == <<vars, hb, sched>>
HView == <<vars, hb>>

NT == Cardinality(Threads)          \* the main thread (setup) has index NT

HInit ==
  /\ Init
  /\ sched = <<>>
  /\ LET h0 == H!HBInit(NT)
         h1 == H!Access(h0, NT, 0, Cap, "w", <<"setup", "all">>)
         F[i \in 0..NT] == IF i = 0 THEN h1 ELSE H!Inherit(F[i - 1], i - 1, NT)
     IN hb = H!Spawned(F[NT], NT)

HBStep(h, t) ==
  LET x == Info(t) a == x.a IN
  IF a.kind \in {"load", "store", "cas", "casw", "fadd", "fsub"} THEN
     LET wr == a.kind \in {"store", "fadd", "fsub"} \/ (a.kind \in {"cas", "casw"} /\ x.ok)
         h1 == IF a.at >= 0 THEN H!Access(h, t, a.at, a.at + 8, IF wr THEN "aw" ELSE "ar", <<a.kind, "node">>) ELSE h
     IN H!Atomic(h1, t, a.at, a.kind, x.ok, a.so, a.fo)
  ELSE IF a.kind = "zero" THEN H!Access(h, t, a.exp, a.exp + a.new, "w", <<"zero", "clear">>)
  ELSE IF a.kind = "unmount" THEN H!Access(h, t, 0, Cap, "w", <<"unmount", "all">>)
  ELSE IF a.kind = "fill" THEN H!Access(h, t, x.h.po, x.h.po + x.h.ps, "w", <<"user", "fill">>)
  ELSE IF a.kind = "write" THEN H!Access(h, t, x.h.po + x.at, x.h.po + x.at + 8, "w", <<"user", "write">>)
  ELSE H!Access(h, t, x.h.po, x.h.po + x.h.ps, "r", <<"user", "verify">>)

HNext == \E t \in Threads :
           /\ ~Finished(t) /\ pc[t] # "oob"
           /\ hb' = HBStep(hb, t)
           /\ Step(t)
           /\ sched' = Append(sched, t)
HSpec == HInit /\ [][HNext]_hvars

NoRace == hb.races = {}
=============================================================================
