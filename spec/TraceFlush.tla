----------------------------- MODULE TraceFlush -----------------------------
(***************************************************************************)
(* Real flush calls: the msync(2) calls of each call were recorded with    *)
(* strace and joined to the harness's call records (check_flush.py, by     *)
(* position: single thread, every record is one write(2)).                 *)
(*  - what a user relies on (Flush!Covered / InBounds / ShouldRefuse, no   *)
(*    panic) is judged on the recorded syscalls:   <<"VIOL", "XFL", ...>>  *)
(*  - the decision of the model (Flush!Decide) must explain them:  DRIFT   *)
(* The page size is the machine's (constant P is overridden per run).      *)
(***************************************************************************)
EXTENDS Flush, TLC, Json, IOUtils

Rec == ndJsonDeserialize(IOEnv.TRACE)

VARIABLES l, env
vars == <<l, env>>

Viol(pred, ok) == IF ok THEN TRUE ELSE PrintT(<<"VIOL", "XFL", pred, l, 0>>)
Drift(what) == PrintT(<<"DRIFT", l, 0, what>>)

Init == l = 1 /\ env = [ok |-> FALSE]

StepReset ==
  LET e == Rec[l] IN
  /\ e.ev = "reset"
  /\ env' = IF e.ok THEN [ok |-> TRUE, mlen |-> e.mlen, hoff |-> e.hoff, hsize |-> e.hsize] ELSE [ok |-> FALSE]
  /\ (e.ok /\ e.page # P) => Drift("page-size")
  /\ l' = l + 1

MsOf(e) == [i \in 1..Len(e.ms) |-> [start |-> e.ms[i][1], len |-> e.ms[i][2], async |-> e.ms[i][3]]]

StepCall ==
  LET e == Rec[l] IN
  /\ e.ev = "call" /\ env.ok
  /\ LET d == Decide(e.op, e.off, e.len, env.mlen, env.hoff, env.hsize)
         ms == MsOf(e)
         want == [i \in 1..Len(d.reqs) |-> Msync(d.reqs[i])]
         refuse == ShouldRefuse(e.op, e.off, e.len, env.mlen)
     IN
     /\ Viol("NoPanic", e.res.k # "panic")
     /\ (e.res.k # "panic") =>
          /\ Viol("RefusedIffOutOfBounds", (e.res.k = "err") = refuse)
          /\ (e.res.k = "ok") => /\ Viol("CoversWhatWasAsked", Covered(e.op, e.off, e.len, env.mlen, env.hoff, env.hsize, ms))
                                 /\ Viol("StaysInsideMapping", InBounds(env.mlen, ms))
                                 /\ Viol("SyncOrAsyncAsAsked", \A i \in 1..Len(ms) : ms[i].async = IsAsync(e.op))
          /\ (e.res.k = "err") => Viol("RefusedCallTouchesNothing", Len(ms) = 0)
     /\ IF e.res.k = "panic" THEN Drift("panic")
        ELSE IF e.res.k # d.k THEN Drift("result")
        ELSE IF Len(ms) # Len(want) \/ \E i \in 1..Len(want) : (ms[i].start # want[i].start \/ ms[i].len # want[i].len)
             THEN Drift("msync-ranges") ELSE TRUE
  /\ UNCHANGED env /\ l' = l + 1

StepSkip == /\ ~(Rec[l].ev = "reset" \/ (Rec[l].ev = "call" /\ env.ok)) /\ UNCHANGED env /\ l' = l + 1

Next == l <= Len(Rec) /\ (StepReset \/ StepCall \/ StepSkip)
Spec == Init /\ [][Next]_vars

Consumed == TLCGet("stats").diameter - 1 = Len(Rec)
Post == IF Consumed THEN PrintT(<<"TRACE-CONSUMED", Len(Rec)>>)
        ELSE PrintT(<<"TRACE-STUCK", TLCGet("stats").diameter, Len(Rec)>>) /\ FALSE
=============================================================================
