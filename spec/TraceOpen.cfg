SPECIFICATION Spec
CONSTANT FixedOrder = TRUE
POSTCONDITION Post
CHECK_DEADLOCK FALSE
