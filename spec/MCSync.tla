------------------------------- MODULE MCSync -------------------------------
(***************************************************************************)
(* Model-checking wrapper of ArenaSync: adds the schedule as a history     *)
(* variable (hidden from the fingerprint by VIEW) so that                  *)
(*  - every counterexample TLC reports carries the schedule that forces    *)
(*    the same interleaving on the real code, and                          *)
(*  - in simulation mode (Emit) every completed behaviour prints its       *)
(*    schedule: these are replayed by the controlled scheduler and the     *)
(*    recorded accesses validated against Access/Cont (TraceSyncImpl).     *)
(***************************************************************************)
EXTENDS ArenaSync, Json

CONSTANT Emit

VARIABLE sched
mcvars == <<vars, sched>>
View == vars

MCInit == Init /\ sched = <<>>
MCNext == \E t \in Threads :
            /\ Step(t)
            /\ sched' = Append(sched, t)
            /\ (Emit /\ AllDone') => PrintT(ToJson([sched |-> sched']))
MCSpec == MCInit /\ [][MCNext]_mcvars
MCFairSpec == MCSpec /\ \A t \in Threads : WF_mcvars(Step(t) /\ sched' = Append(sched, t))
=============================================================================
