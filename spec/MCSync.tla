------------------------------- MODULE MCSync -------------------------------
(***************************************************************************)
(* Model-checking wrapper of ArenaSync: adds the schedule as a history     *)
(* variable (hidden from the fingerprint by VIEW) so that                  *)
(*  - every counterexample TLC reports carries the schedule that forces    *)
(*    the same interleaving on the real code, and                          *)
(*  - in simulation mode (Emit) every completed behaviour prints its       *)
(*    schedule: these are replayed by the controlled scheduler and the     *)
(*    recorded accesses validated against Access/Cont (TraceSyncImpl).     *)
(***************************************************************************)
EXTENDS ArenaSync, Json

CONSTANT Emit,
         Cover     \* exhaustive mode: the first time any thread executes an arm of the micro-op table, print the schedule
                   \* that got there (breadth first = a shortest one): every reachable arm is then forced on the real code

VARIABLE sched
mcvars == <<vars, sched>>
View == vars

MCInit == Init /\ sched = <<>> /\ (Cover => TLCSet(8, {}))
MCNext == \E t \in Threads :
            /\ Step(t)
            /\ sched' = Append(sched, t)
            /\ (Emit /\ AllDone') => PrintT(ToJson([sched |-> sched']))
            /\ (Cover /\ Info(t).label \notin TLCGet(8)) =>
                  (TLCSet(8, TLCGet(8) \cup {Info(t).label}) /\ PrintT(ToJson([cover |-> Info(t).label, sched |-> sched'])))
MCSpec == MCInit /\ [][MCNext]_mcvars
MCFairSpec == MCSpec /\ \A t \in Threads : WF_mcvars(Step(t) /\ sched' = Append(sched, t))
=============================================================================
