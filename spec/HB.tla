--------------------------------- MODULE HB ---------------------------------
(***************************************************************************)
(* Happens-before bookkeeping (C12), shared by                             *)
(*   TraceHB    -- judges real executions recorded by the controlled       *)
(*                 scheduler, with the orderings the code actually passed, *)
(*   MCSyncHB   -- the same bookkeeping carried along every interleaving   *)
(*                 of ArenaSync, with the orderings of the micro-op table. *)
(*                                                                         *)
(* hb = [vc, rel, recs, races]                                             *)
(*   vc[t]     vector clock of thread t (function over 0..N)               *)
(*   rel[L]    clock published by the release sequence headed at atomic    *)
(*             location L (absent = nothing published)                     *)
(*   recs      set of non-atomic / mixed accesses not yet subsumed:        *)
(*             [lo, hi, t, c, k, site], k in "w" (plain write), "r" (plain *)
(*             read), "aw"/"ar" (atomic write / read of a node word)       *)
(*   races     set of <<earlier site, later site>> found so far            *)
(* C11 rules: release(-or-stronger) store/RMW publishes the writer's       *)
(* clock; an RMW continues the release sequence it reads from; a relaxed   *)
(* store ends it; acquire(-or-stronger) load/RMW joins what it reads;      *)
(* a failed CAS is a load with the failure ordering.  SeqCst = AcqRel.     *)
(***************************************************************************)
EXTENDS Integers, Sequences, FiniteSets

IsRel(o) == o \in {"rel", "acqrel", "sc"}
IsAcq(o) == o \in {"acq", "acqrel", "sc"}

Join(a, b) == [i \in DOMAIN a |-> IF a[i] >= b[i] THEN a[i] ELSE b[i]]
Zero(N) == [i \in 0..N |-> 0]
Leq(c, t, v) == c <= v[t]        \* event (t, c) happens-before the holder of clock v

\* a thread's own component starts at 1 and advances after each release operation (epochs): accesses made
\* before a release carry the epoch that the release publishes, accesses after it the next one
HBInit(N) == [vc |-> [t \in 0..N |-> [i \in 0..N |-> IF i = t THEN 1 ELSE 0]], rel |-> [x \in {} |-> 0],
              recs |-> {}, races |-> {}]

\* thread t starts knowing everything `parent` did (spawn), or joins it (join)
Inherit(hb, t, parent) == [hb EXCEPT !.vc[t] = Join(hb.vc[t], hb.vc[parent])]
\* spawn: the parent's epoch so far is visible to the child; the parent moves on to a new epoch
Spawned(hb, parent) == [hb EXCEPT !.vc[parent][parent] = hb.vc[parent][parent] + 1]

Overlap(r, lo, hi) == r.lo < hi /\ lo < r.hi
Conflict(k1, k2) == ~((k1 \in {"r", "ar"} /\ k2 \in {"r", "ar"}) \/ (k1 \in {"aw", "ar"} /\ k2 \in {"aw", "ar"}))

\* a memory access [lo, hi) of kind k by t at `site`: races with every earlier conflicting overlapping access that is
\* not ordered before it; plain writes subsume the records they cover
Access(hb0, t, lo, hi, k, site) ==
  LET hb == hb0
      v == hb.vc[t]
      bad == {r \in hb.recs : /\ Overlap(r, lo, hi) /\ r.t # t /\ Conflict(r.k, k) /\ ~Leq(r.c, r.t, v)}
      kept == {r \in hb.recs : ~(k = "w" /\ lo <= r.lo /\ r.hi <= hi)}
      me == [lo |-> lo, hi |-> hi, t |-> t, c |-> v[t], k |-> k, site |-> site]
  IN [hb EXCEPT !.recs = IF lo < hi THEN kept \cup {me} ELSE kept,
                !.races = hb.races \cup {<<r.site, site>> : r \in bad}]

\* synchronisation effect of an atomic access on location L (an integer key)
\* kind in load/store/cas/casw/fadd/fsub, ok = CAS outcome, so/fo = success/failure ordering
Atomic(hb0, t, L, kind, ok, so, fo) ==
  LET hb == hb0
      has == L \in DOMAIN hb.rel
      pub == IF has THEN hb.rel[L] ELSE Zero(Cardinality(DOMAIN hb.vc) - 1)
      isLoad == kind = "load" \/ (kind \in {"cas", "casw"} /\ ~ok)
      ordR == IF kind = "load" THEN so ELSE IF isLoad THEN fo ELSE so
      \* acquire side
      v1 == IF IsAcq(ordR) /\ has THEN Join(hb.vc[t], pub) ELSE hb.vc[t]
      \* release side
      isStore == kind = "store"
      isRmw == kind \in {"fadd", "fsub"} \/ (kind \in {"cas", "casw"} /\ ok)
      newRel == IF isStore THEN (IF IsRel(so) THEN v1 ELSE Zero(Cardinality(DOMAIN hb.vc) - 1))
                ELSE IF isRmw THEN (IF IsRel(so) THEN Join(pub, v1) ELSE pub)
                ELSE pub
      relDom == IF isStore \/ isRmw THEN DOMAIN hb.rel \cup {L} ELSE DOMAIN hb.rel
      published == (isStore \/ isRmw) /\ IsRel(so)
  IN [hb EXCEPT !.vc[t] = IF published THEN [v1 EXCEPT ![t] = v1[t] + 1] ELSE v1,
                !.rel = [x \in relDom |-> IF x = L THEN newRel ELSE hb.rel[x]]]
=============================================================================
