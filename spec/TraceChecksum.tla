---------------------------- MODULE TraceChecksum ----------------------------
(***************************************************************************)
(* Property-level trace specification for executions of the real           *)
(* Allocator::checksum (harness_small/src/ck.rs).  Every "cksum" event     *)
(* carries allocated(), reserved_bytes(), the chunks a recording           *)
(* checksummer saw, and the digests (hex strings) of checksum() and of the *)
(* one-shot reference for Crc32 and for a streaming FNV-1a.  The C19       *)
(* predicates of Checksum.tla are evaluated on it; a false one prints      *)
(*     <<"VIOL", "C19", predicate, line, 0>>                               *)
(* A chunk list different from the loop of Checksum.tla prints DRIFT.      *)
(***************************************************************************)
EXTENDS Checksum, TLC, Json, IOUtils

Rec == ndJsonDeserialize(IOEnv.TRACE)

\* the loop variables of Checksum.tla are not used by the monitor: they stay at a fixed value
VARIABLES l, live
vars == <<l, live, reserved, allocated, pc, page_id, chunks>>

Viol(prop, pred, ok) == IF ok THEN TRUE ELSE PrintT(<<"VIOL", prop, pred, l, 0>>)
Report(Ps) == \A i \in 1..Len(Ps) : Viol(Ps[i][1], Ps[i][2], Ps[i][3])

Drift(e) == IF e.res.k = "ok" /\ e.reserved <= e.alloc /\ e.chunks # ChunksOf(e.reserved, e.alloc, e.page)
            THEN PrintT(<<"DRIFT", l, 0, "chunks">>) ELSE TRUE

Init == l = 1 /\ live = FALSE /\ reserved = 0 /\ allocated = 0 /\ pc = "digest" /\ page_id = 0 /\ chunks = <<>>

StepReset == /\ Rec[l].ev = "reset" /\ live' = Rec[l].ok /\ l' = l + 1

StepOp ==
  LET e == Rec[l] IN
  /\ e.ev = "op"
  /\ IF live /\ e.res.k = "died"
     THEN Report(<<PK("ProcessDied", FALSE)>>) /\ live' = FALSE
     ELSE IF live /\ e.op.k = "cksum"
     THEN /\ Report(ChecksumPreds(e.alloc, e.reserved, e))
          /\ Drift(e)
          /\ UNCHANGED live
     ELSE UNCHANGED live
  /\ l' = l + 1

StepSkip == /\ Rec[l].ev \notin {"reset", "op"} /\ l' = l + 1 /\ UNCHANGED live

Next == l <= Len(Rec) /\ (StepReset \/ StepOp \/ StepSkip) /\ UNCHANGED cvars
Spec == Init /\ [][Next]_vars

Consumed == TLCGet("stats").diameter - 1 = Len(Rec)
Post == IF Consumed THEN PrintT(<<"TRACE-CONSUMED", Len(Rec)>>)
        ELSE PrintT(<<"TRACE-STUCK", TLCGet("stats").diameter, Len(Rec)>>) /\ FALSE
=============================================================================
