SPECIFICATION CSpec
CONSTANTS
  PageSize = 4
  MaxReserved = 6
  MaxData = 13
INVARIANTS PrefixTiling DoneTiles DoneFedExactly DoneClosedForm
PROPERTY Terminates
CHECK_DEADLOCK FALSE
