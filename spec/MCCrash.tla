------------------------------- MODULE MCCrash -------------------------------
(***************************************************************************)
(* C06 over every crash point of every interleaving: ArenaSync plus        *)
(*   Crash   enabled in every state before the crash: all threads vanish   *)
(*           (their locals are lost), shared memory stays (page cache);    *)
(*   reopen  zeroes [cursor, Cap) (memory.rs map_mut_in);                  *)
(* afterwards only the probe thread (the highest thread id) runs.          *)
(* Safety: the ranges that were live at the crash keep their bytes and     *)
(* stay disjoint from everything the probe is given; the cursor is inside  *)
(* [DataOff, Cap].  Liveness: the probe finishes (WF on its steps).        *)
(***************************************************************************)
EXTENDS ArenaSync

VARIABLES crashed, sched, crashAt
cvars == <<vars, crashed, sched, crashAt>>
CView == <<vars, crashed>>

Probe == CHOOSE t \in Threads : \A u \in Threads : u <= t
Workers == Threads \ {Probe}

CInit == Init /\ crashed = FALSE /\ sched = <<>> /\ crashAt = -1

WorkerStep == /\ ~crashed
              /\ \E t \in Workers : Step(t) /\ sched' = Append(sched, t)
              /\ UNCHANGED <<crashed, crashAt>>
Crash == /\ ~crashed
         /\ crashed' = TRUE
         /\ crashAt' = Len(sched)
         \* the reopen: everything above the stored cursor is zeroed; the dead threads never step again
         /\ mem' = IF cursor >= 0 /\ cursor < Cap THEN SetBytes(mem, cursor, Cap, 0) ELSE mem
         /\ pc' = [t \in Threads |-> "idle"]
         /\ loc' = [t \in Threads |-> L0]
         /\ ip' = [t \in Threads |-> IF t = Probe THEN SkipFrom(t, 1, live) ELSE Len(ProgOf(t)) + 1]
         /\ UNCHANGED <<cursor, disc, minseg, sent, hs, live, refs, freed, touchedAfterFree, sched>>
ProbeStep == /\ crashed
             /\ Step(Probe)
             /\ UNCHANGED <<crashed, sched, crashAt>>
CNext == WorkerStep \/ Crash \/ ProbeStep
CSpec == CInit /\ [][CNext]_cvars
CFairSpec == CSpec /\ WF_cvars(ProbeStep)

CursorInBounds == crashed => (DataOff <= cursor /\ cursor <= Cap)
ProbeTerminates == crashed ~> Finished(Probe)
=============================================================================
