------------------------------ MODULE ArenaSeq ------------------------------
(***************************************************************************)
(* Implementation-level sequential semantics of rarena-allocator:          *)
(* a transcription of unsync.rs (and of sync.rs run by one thread, C11)    *)
(* as pure operators over an arena-state record, one operator per public   *)
(* call, helpers named after the functions they mirror.  Deliberately      *)
(* faithful to the code's quirks (noted inline) -- this module says what   *)
(* the code DOES; what it SHOULD do is ArenaProps.                         *)
(*                                                                         *)
(* st = [kind, backend, doff, reserved, cap, cursor, fl, disc, minseg,     *)
(*       refs, mem, live, leaked, nextId, first, truncated, rewound]       *)
(*   fl    : Seq(<<node offset, data size>>) in list order                 *)
(*   mem   : [0..len-1 -> Int], len = cap (file backend: the file length, *)
(*           >= cap): 0 zero, h>0 pattern of handle h,                     *)
(*           238 reserved pattern, -1 bytes the model does not predict     *)
(*           (node headers, header area)                                   *)
(*   live  : handle id |-> [mo, ms, po, ps, pat, owned, det, embeds]       *)
(***************************************************************************)
EXTENDS ArenaProps, TLC

UNK == -1

\* ---------------------------------------------------------------- memory helpers
SetRange(m, lo, hi, v) == [i \in DOMAIN m |-> IF i >= lo /\ i < hi THEN v ELSE m[i]]
RangeAll(m, lo, hi, v) == \A i \in lo..(hi - 1) : m[i] = v

\* ---------------------------------------------------------------- construction
\* Memory::alloc / map_anon / map_mut_in(create_new)
New(kind, backend, unify, reserved, cap, minseg) ==
  LET doff == DataOffsetOf(reserved, unify \/ backend = "file") IN
  [kind |-> kind, backend |-> backend, doff |-> doff, reserved |-> reserved, cap |-> cap,
   cursor |-> doff, fl |-> <<>>, disc |-> 0, minseg |-> minseg, refs |-> 1,
   mem |-> [i \in 0..(cap - 1) |-> IF i < reserved THEN ReservedPattern ELSE IF i < doff THEN UNK ELSE 0],
   live |-> [x \in {} |-> 0], leaked |-> {}, nextId |-> 1,
   first |-> TRUE, truncated |-> FALSE, rewound |-> FALSE,
   \* other arena values of the same arena (Clone), newest last: each caches the capacity it saw when it was made
   \* (unsync.rs:138-141, sync.rs likewise: `ptr` and `cap` are fields of the value, not of the shared Memory)
   clones |-> <<>>]

Obs(st) == [alloc |-> st.cursor, disc |-> st.disc, rem |-> st.cap - st.cursor, cap |-> st.cap,
            minseg |-> st.minseg, refs |-> st.refs, doff |-> st.doff, fl |-> st.fl, fltrunc |-> FALSE]

\* ---------------------------------------------------------------- free list internals
\* try_new_segment (unsync.rs:1274): [ok, node, dsize, disc]
TryNewSegment(off, size, ms) ==
  IF off = 0 \/ size = 0 THEN [ok |-> FALSE, disc |-> 0]
  ELSE LET al == Align8(off) hdr == (al - off) + 8 IN
       IF hdr >= size THEN [ok |-> FALSE, disc |-> size]
       ELSE IF size - hdr < ms THEN [ok |-> FALSE, disc |-> size]
       ELSE [ok |-> TRUE, node |-> al, dsize |-> size - hdr, disc |-> 0]

\* validate_segment (unsync.rs:1253)
ValidateSegment(off, size, ms) ==
  off # 0 /\ size # 0 /\ (Align8(off) - off) + 8 < size /\ size - ((Align8(off) - off) + 8) >= ms

\* the comparator closures of optimistic_dealloc / pessimistic_dealloc and find_prev_and_next
Check(kind, val, s) == IF kind = "opt" THEN val >= s ELSE val <= s

\* find_position: index at which the new node is linked (before the first node the check accepts)
FindPosition(kind, list, val) ==
  IF \E i \in 1..Len(list) : Check(kind, val, list[i][2])
  THEN CHOOSE i \in 1..Len(list) : Check(kind, val, list[i][2]) /\ \A j \in 1..(i - 1) : ~Check(kind, val, list[j][2])
  ELSE Len(list) + 1
InsertAt(list, i, x) == SubSeq(list, 1, i - 1) \o <<x>> \o SubSeq(list, i, Len(list))
RemoveAt(list, i) == SubSeq(list, 1, i - 1) \o SubSeq(list, i + 1, Len(list))
InsertSeg(kind, list, node, dsize) == InsertAt(list, FindPosition(kind, list, dsize), <<node, dsize>>)

\* optimistic_dealloc / pessimistic_dealloc(off, size): [fl, disc, hdr]  (hdr = node offset written, or -1)
ListDealloc(st, off, size) ==
  LET tn == TryNewSegment(off, size, st.minseg) IN
  IF tn.ok THEN [fl |-> InsertSeg(st.kind, st.fl, tn.node, tn.dsize), disc |-> st.disc + 8, hdr |-> tn.node]
  ELSE [fl |-> st.fl, disc |-> st.disc + tn.disc, hdr |-> -1]

\* Allocator::dealloc(off, size)
Dealloc(st, off, size) ==
  IF st.cursor = off + size THEN [st EXCEPT !.cursor = off]
  ELSE IF st.kind = "none" THEN [st EXCEPT !.disc = st.disc + size]
  ELSE LET d == ListDealloc(st, off, size) IN
       [st EXCEPT !.fl = d.fl, !.disc = d.disc,
                  !.mem = IF d.hdr >= 0 THEN SetRange(st.mem, d.hdr, d.hdr + 8, UNK) ELSE st.mem]

\* alloc_slow_path_optimistic / _pessimistic(size): [ok, st, meta]
PickIdx(kind, list, size) ==
  IF kind = "opt" THEN (IF Len(list) > 0 /\ size <= list[1][2] THEN 1 ELSE 0)
  ELSE IF \E i \in 1..Len(list) : size <= list[i][2]
       THEN CHOOSE i \in 1..Len(list) : size <= list[i][2] /\ \A j \in 1..(i - 1) : ~(size <= list[j][2])
       ELSE 0

SlowPath(st, size) ==
  LET i == PickIdx(st.kind, st.fl, size) IN
  IF st.kind = "none" \/ i = 0 THEN [ok |-> FALSE]
  ELSE
  LET seg == st.fl[i]
      rest == RemoveAt(st.fl, i)
      rem == seg[2] - size
      dend == seg[1] + 8 + size
      \* the popped node is marked REMOVED by the sync flavour: its header bytes are unpredictable anyway
      st1 == [st EXCEPT !.fl = rest]
  IN
  IF ValidateSegment(dend, rem, st.minseg)
  THEN LET d == ListDealloc(st1, dend, rem)
           m1 == IF d.hdr >= 0 THEN SetRange(st.mem, d.hdr, d.hdr + 8, UNK) ELSE st.mem
           \* quirk: Meta.memory_size is the node's *data* size, so the 8 header bytes are lost on recycle
           meta == [mo |-> seg[1], ms |-> seg[2] - rem, po |-> seg[1] + 8, ps |-> size] IN
       [ok |-> TRUE, meta |-> meta,
        st |-> [st1 EXCEPT !.fl = d.fl, !.disc = d.disc, !.mem = SetRange(m1, meta.po, meta.po + meta.ps, 0)]]
  ELSE LET meta == [mo |-> seg[1], ms |-> seg[2], po |-> seg[1] + 8, ps |-> size] IN
       [ok |-> TRUE, meta |-> meta, st |-> [st1 EXCEPT !.mem = SetRange(st.mem, meta.po, meta.po + meta.ps, 0)]]

\* ---------------------------------------------------------------- allocation calls
\* result: [st, res], res = [k, h, mo, ms, po, ps, owned] (the harness-level fields amod/ptr_off are added by callers)
NullMeta == [mo |-> 0, ms |-> 0, po |-> 0, ps |-> 0]

\* hand a new handle out; the harness then fills it with its pattern; zeroOk records C08 at the instant of return
Commit(st, meta, owned, embeds, isBytes) ==
  LET id == st.nextId
      hrec == [mo |-> meta.mo, ms |-> meta.ms, po |-> meta.po, ps |-> meta.ps, pat |-> PatternOf(id),
               owned |-> owned, det |-> FALSE, embeds |-> embeds]
      zeroOk == RangeAll(st.mem, meta.po, meta.po + meta.ps, 0)
  IN [st |-> [st EXCEPT !.live = (id :> hrec) @@ st.live, !.nextId = id + 1, !.refs = st.refs + embeds,
                        !.mem = SetRange(st.mem, meta.po, meta.po + meta.ps, PatternOf(id)),
                        !.first = (st.first /\ meta.ps = 0)],
      res |-> [k |-> "ok", h |-> id, mo |-> meta.mo, ms |-> meta.ms, po |-> meta.po, ps |-> meta.ps,
               owned |-> owned, pat |-> PatternOf(id), amod |-> -1, ptr_off |-> -1],
      zeroOk |-> zeroOk]

Fail(st) == [st |-> st, res |-> [k |-> "err_space"], zeroOk |-> TRUE]

\* BytesRefMut::to_owned embeds an arena clone unless the buffer is empty (bytes.rs:366);
\* RefMut::to_owned always does (object.rs:344)
EmbedsBytes(owned, meta) == IF owned /\ meta.ms > 0 THEN 1 ELSE 0
EmbedsTyped(owned) == IF owned THEN 1 ELSE 0

AllocBytes(st, n, owned) ==
  IF n = 0 THEN Commit(st, NullMeta, owned, 0, TRUE)
  ELSE IF st.cursor + n <= st.cap
  THEN LET meta == [mo |-> st.cursor, ms |-> n, po |-> st.cursor, ps |-> n]
           st1 == [st EXCEPT !.cursor = st.cursor + n, !.mem = SetRange(st.mem, meta.po, meta.po + n, 0)]
       IN Commit(st1, meta, owned, EmbedsBytes(owned, meta), TRUE)
  ELSE LET r == SlowPath(st, n) IN
       IF r.ok THEN Commit(r.st, r.meta, owned, EmbedsBytes(owned, r.meta), TRUE) ELSE Fail(st)

AllocTyped(st, T, owned) ==
  IF T.size = 0 THEN Commit(st, NullMeta, owned, EmbedsTyped(owned), FALSE)
  ELSE
  LET al == Align(st.cursor, T.align) want == al + T.size IN
  IF want <= st.cap
  THEN LET meta == [mo |-> st.cursor, ms |-> want - st.cursor, po |-> al, ps |-> T.size]
           st1 == [st EXCEPT !.cursor = want, !.mem = SetRange(st.mem, al, al + T.size, 0)]
       IN Commit(st1, meta, owned, EmbedsTyped(owned), FALSE)
  ELSE LET r == SlowPath(st, Pad(T)) IN
       IF r.ok
       THEN \* Meta::align_to aligns the accessible offset, which the slow path put after the node header
            \* (lib.rs:889; the original code re-aligned from memory_offset, i.e. over the header: see known_findings C02)
            LET m == r.meta meta == [mo |-> m.mo, ms |-> m.ms, po |-> Align(m.po, T.align), ps |-> T.size] IN
            Commit(r.st, meta, owned, EmbedsTyped(owned), FALSE)
       ELSE Fail(st)

\* (as found a zero-sized T always took the alloc_bytes route, so the n bytes were not aligned for it; repaired: only a
\* request that is empty altogether, or needs no alignment, does)
AllocAligned(st, T, n, owned) ==
  IF T.size = 0 /\ (n = 0 \/ T.align = 1) THEN AllocBytes(st, n, owned)
  ELSE
  LET al == Align(st.cursor, T.align) want == al + T.size + n IN
  IF want <= st.cap
  THEN \* the fast path does not zero (sync.rs:960-969)
       LET meta == [mo |-> st.cursor, ms |-> want - st.cursor, po |-> al, ps |-> want - al]
           st1 == [st EXCEPT !.cursor = want]
       IN Commit(st1, meta, owned, EmbedsBytes(owned, meta), FALSE)
  ELSE LET r == SlowPath(st, Pad(T) + n) IN
       IF r.ok
       THEN LET m == r.meta po2 == Align(m.po, T.align)
                meta == [mo |-> m.mo, ms |-> m.ms, po |-> po2, ps |-> m.po + m.ps - po2] IN
            Commit(r.st, meta, owned, EmbedsBytes(owned, meta), FALSE)
       ELSE Fail(st)

\* ---------------------------------------------------------------- handle calls
Without(f, h) == [i \in DOMAIN f \ {h} |-> f[i]]
AsLeak(hr) == [po |-> hr.po, ps |-> hr.ps, pat |-> hr.pat]

\* drop of a handle (detached: nothing is released); explicit dealloc(buffer_offset, buffer_capacity)
DropHandle(st, h) ==
  LET hr == st.live[h]
      st1 == [st EXCEPT !.live = Without(st.live, h), !.refs = st.refs - hr.embeds] IN
  IF hr.det THEN st1
  ELSE IF hr.ms = 0 /\ hr.embeds = 0 /\ hr.mo = 0 THEN
       \* null handles: BytesRefMut calls dealloc(0, 0) (harmless); ZST RefMut / null BytesMut call nothing
       st1
  ELSE Dealloc(st1, hr.mo, hr.ms)
ExplicitDealloc(st, h) ==
  LET hr == st.live[h]
      st1 == [st EXCEPT !.live = Without(st.live, h), !.refs = st.refs - hr.embeds] IN
  Dealloc(st1, hr.mo, hr.ms)
Detach(st, h) == [st EXCEPT !.live[h].det = TRUE]
Leak(st, h) == [st EXCEPT !.live = Without(st.live, h), !.refs = st.refs - st.live[h].embeds,
                          !.leaked = st.leaked \cup {AsLeak(st.live[h])}]

\* ---------------------------------------------------------------- accounting calls
DiscardFreelist(st) == [st EXCEPT !.fl = <<>>, !.disc = st.disc + SumSizes(st.fl)]
SetMinSeg(st, v) == [st EXCEPT !.minseg = v]
IncreaseDiscarded(st, v) == [st EXCEPT !.disc = st.disc + v]

\* ---------------------------------------------------------------- rewind / clear / truncate
\* rewind (unsync.rs:504): FixedRewind = FALSE reproduces the original `Current` arm that returns without
\* storing when allocated + d = 0; TRUE is the repaired behaviour (fix: commit in /repo)
RewindTarget(st, p, v, fixed) ==
  IF p = "start" THEN Min(Max(v, st.doff), st.cap)
  ELSE IF p = "end" THEN (IF v <= st.cap THEN Max(st.cap - v, st.doff) ELSE st.doff)
  ELSE LET off == st.cursor + v IN
       IF off > 0 THEN (IF off >= st.cap THEN st.cap ELSE Min(Max(off, st.doff), st.cap))
       ELSE IF off < 0 THEN st.doff
       ELSE (IF fixed THEN st.doff ELSE st.cursor)

\* the caller gives up every handle / detached range that is not entirely below the new cursor
Rewind(st, p, v, fixed) ==
  LET t == RewindTarget(st, p, v, fixed)
      keep == {h \in DOMAIN st.live : Ext(st.live[h]).hi <= t \/ (st.live[h].ps = 0 /\ st.live[h].ms = 0)}
      gone == DOMAIN st.live \ keep
      refsBack == Cardinality({h \in gone : st.live[h].embeds = 1})
  IN [st EXCEPT !.cursor = t, !.live = [h \in keep |-> st.live[h]],
                !.leaked = {k \in st.leaked : k.po + k.ps <= t}, !.rewound = TRUE,
                !.refs = st.refs - refsBack]

\* Memory::clear (memory.rs:227)
Clear(st) ==
  [st EXCEPT !.cursor = st.doff, !.fl = <<>>, !.disc = 0,
             !.mem = [i \in DOMAIN st.mem |-> IF i >= st.doff /\ i < st.cap THEN 0 ELSE st.mem[i]],
             !.live = [x \in {} |-> 0], !.leaked = {}, !.refs = 1 + Len(st.clones), !.nextId = 1,
             !.first = TRUE, !.rewound = FALSE]

\* unsync::Arena::truncate + Memory::truncate (memory.rs:156): Vec / anon copy [0, allocated) into fresh zeroed
\* memory; the file backend remaps the same file (bytes below the old capacity persist)
Truncate(st, n) ==
  LET size == Max(n, st.cursor)
      len == Cardinality(DOMAIN st.mem)
      leakedAll == st.leaked \cup {AsLeak(st.live[h]) : h \in DOMAIN st.live} IN
  [st EXCEPT !.cap = size,
             \* file: the file only ever grows (set_len when too short); bytes beyond a shrunk mapping stay in the
             \* file and reappear when the mapping grows again, so mem keeps the whole file (DOMAIN mem >= cap)
             !.mem = IF st.backend = "file"
                     THEN [i \in 0..(Max(len, size) - 1) |-> IF i < len THEN st.mem[i] ELSE 0]
                     ELSE [i \in 0..(size - 1) |-> IF i < st.cursor THEN st.mem[i] ELSE 0],
             \* truncate(&mut self) updates the cached `ptr`/`cap` of the value it is called on only (unsync.rs:568-571):
             \* every other arena value keeps the capacity (and the base pointer) of the old mapping
             !.clones = [i \in 1..Len(st.clones) |-> [st.clones[i] EXCEPT !.stale = TRUE]],
             !.live = [x \in {} |-> 0], !.leaked = leakedAll, !.refs = 1 + Len(st.clones), !.truncated = TRUE]

\* close + map_mut reopen (memory.rs map_mut_in, reopen branch): handles are given up, the mapping covers `cap`
\* bytes (0 = the whole file; the file grows when it is shorter), bytes above the stored cursor are zeroed
ReopenMut(st, capArg) ==
  LET len == Cardinality(DOMAIN st.mem)
      cap2 == IF capArg = 0 THEN len ELSE capArg
      len2 == Max(len, cap2)
      leakedAll == st.leaked \cup {AsLeak(st.live[h]) : h \in DOMAIN st.live} IN
  [st EXCEPT !.cap = cap2,
             !.mem = [i \in 0..(len2 - 1) |-> IF i >= st.cursor /\ i < cap2 THEN 0 ELSE IF i < len THEN st.mem[i] ELSE 0],
             !.live = [x \in {} |-> 0], !.leaked = leakedAll, !.refs = 1, !.nextId = 1, !.clones = <<>>,
             !.first = FALSE, !.truncated = FALSE]

\* ---------------------------------------------------------------- one call = one step
\* op is the harness's op record; returns [st, res, zeroOk]
TypeOf(op) == [size |-> op.s, align |-> op.a]
OwnedOf(op) == "o" \in DOMAIN op /\ op.o

ViaClone(st, op) == "via" \in DOMAIN op /\ op.via = "clone" /\ Len(st.clones) > 0
\* an allocation through another arena value: the same shared header, but that value's cached capacity
Alloc1(st, op) ==
  IF op.k = "ab" THEN AllocBytes(st, op.n, OwnedOf(op))
  ELSE IF op.k = "at" THEN AllocTyped(st, TypeOf(op), OwnedOf(op))
  ELSE AllocAligned(st, TypeOf(op), op.n, OwnedOf(op))
Step(st, op, fixedRewind) ==
  IF op.k \in {"ab", "at", "aa"} THEN
     IF ViaClone(st, op)
     THEN LET r == Alloc1([st EXCEPT !.cap = st.clones[Len(st.clones)].cap], op) IN [r EXCEPT !.st.cap = st.cap]
     ELSE Alloc1(st, op)
  ELSE LET ok == [k |-> "ok"] IN
  IF op.k = "mkclone" THEN [st |-> [st EXCEPT !.clones = Append(st.clones, [cap |-> st.cap, stale |-> FALSE]), !.refs = st.refs + 1],
                            res |-> ok, zeroOk |-> TRUE]
  ELSE IF op.k = "dropclone" THEN
     IF Len(st.clones) = 0 THEN [st |-> st, res |-> [k |-> "skip"], zeroOk |-> TRUE]
     ELSE [st |-> [st EXCEPT !.clones = SubSeq(st.clones, 1, Len(st.clones) - 1), !.refs = st.refs - 1], res |-> ok, zeroOk |-> TRUE]
  ELSE IF op.k = "cobs" THEN
     IF Len(st.clones) = 0 THEN [st |-> st, res |-> [k |-> "skip"], zeroOk |-> TRUE]
     \* capacity() asks the shared Memory; remaining() uses the cached capacity
     ELSE [st |-> st, res |-> [k |-> "ok", cap |-> st.cap, alloc |-> st.cursor,
                               rem |-> Max(st.clones[Len(st.clones)].cap - st.cursor, 0)], zeroOk |-> TRUE]
  ELSE
  IF op.k = "drop" THEN [st |-> DropHandle(st, op.h), res |-> ok, zeroOk |-> TRUE]
  ELSE IF op.k = "dealloc" THEN [st |-> ExplicitDealloc(st, op.h), res |-> ok, zeroOk |-> TRUE]
  ELSE IF op.k = "leak" THEN [st |-> Leak(st, op.h), res |-> ok, zeroOk |-> TRUE]
  ELSE IF op.k = "detach" THEN [st |-> Detach(st, op.h), res |-> ok, zeroOk |-> TRUE]
  ELSE IF op.k = "discard" THEN [st |-> DiscardFreelist(st), res |-> [k |-> "ok", v |-> SumSizes(st.fl)], zeroOk |-> TRUE]
  ELSE IF op.k = "setmin" THEN [st |-> SetMinSeg(st, op.v), res |-> ok, zeroOk |-> TRUE]
  ELSE IF op.k = "incdisc" THEN [st |-> IncreaseDiscarded(st, op.v), res |-> ok, zeroOk |-> TRUE]
  ELSE IF op.k = "rewind" THEN [st |-> Rewind(st, op.p, op.v, fixedRewind), res |-> ok, zeroOk |-> TRUE]
  ELSE IF op.k = "clear" THEN [st |-> Clear(st), res |-> ok, zeroOk |-> TRUE]
  ELSE IF op.k = "truncate" THEN [st |-> Truncate(st, op.v), res |-> ok, zeroOk |-> TRUE]
  ELSE IF op.k = "flush" THEN [st |-> st, res |-> ok, zeroOk |-> TRUE]
  ELSE IF op.k = "reopen" THEN [st |-> ReopenMut(st, op.cap), res |-> ok, zeroOk |-> TRUE]
  ELSE Assert(FALSE, <<"unknown op", op>>)

\* an op is meaningful in st (handle exists)
Enabled(st, op) == IF op.k \in {"drop", "dealloc", "leak", "detach"} THEN op.h \in DOMAIN st.live ELSE TRUE
=============================================================================
