----------------------------- MODULE MCChecksum -----------------------------
(* Exhaustive check of the checksum loop: PageSize 4, data lengths 0..3 pages + 1, reserved 0..6. *)
EXTENDS Checksum, TLC
=============================================================================
