----------------------------- MODULE ArenaProps -----------------------------
(***************************************************************************)
(* The listed properties of the sequential arena API as predicates over    *)
(* one step: (configuration, state before, operation, result, observation  *)
(* after).  Each operator returns a sequence of <<property, name, holds>>. *)
(* The same definitions are evaluated                                      *)
(*   - by TraceSeqProp on every event of a real execution (verdicts), and  *)
(*   - by MCSeq as action properties of the implementation-level model     *)
(*     ArenaSeq in every transition TLC explores.                          *)
(* They say what the properties say and nothing about how the code does it.*)
(*                                                                         *)
(* c   = [kind, maxalign, reserved]                                        *)
(* s   = [doff, obs, live, leaked, first, truncated, rewound]  (before)    *)
(* op  = the call; r = its result record; o = observation after            *)
(* mb  = memory facts computed by the caller in its own memory encoding    *)
(***************************************************************************)
EXTENDS Common

Has(r, f) == f \in DOMAIN r

IsAlloc(op) == op.k \in {"ab", "at", "aa"}
TSize(op) == IF op.k = "ab" THEN 0 ELSE op.s
TAlign(op) == IF op.k = "ab" THEN 1 ELSE op.a
Extra(op) == IF op.k = "at" THEN 0 ELSE op.n
ZeroReq(op) == TSize(op) = 0 /\ Extra(op) = 0
\* bytes the fast path takes from the cursor
Plain(op) == op.k = "ab" \/ (TSize(op) = 0 /\ (Extra(op) = 0 \/ TAlign(op) = 1))     \* nothing to place
NeedFresh(op, cur) == IF Plain(op) THEN Extra(op) ELSE Align(cur, TAlign(op)) + TSize(op) + Extra(op) - cur
\* the most a correct implementation may ask a segment for
NeedMax(op) == IF Plain(op) THEN Extra(op) ELSE TSize(op) + TAlign(op) - 1 + Extra(op)

\* (a zero-sized T still has an alignment: alloc_aligned_bytes::<[u64; 0]>(n) is "n bytes aligned to 8"; only a request of
\* size zero altogether takes nothing and therefore need not be placed)
ShapeOk(op, r) ==
  IF Plain(op) THEN r.ps = Extra(op)
  ELSE IF op.k = "at" THEN r.ps = op.s /\ r.po % op.a = 0
  ELSE r.po % op.a = 0 /\ r.ps >= op.s + op.n

Ordered(kind, x, y) == IF kind = "opt" THEN x >= y ELSE IF kind = "pes" THEN x <= y ELSE TRUE

FLShape(kind, doff, fl, o, rewound) ==
  /\ ~o.fltrunc
  /\ (kind = "none") => (fl = <<>>)
  \* (a segment is a non-empty range: size 0 is the "being removed" mark, never a state a call may leave behind)
  /\ \A i \in 1..Len(fl) : /\ fl[i][1] % 8 = 0 /\ doff <= fl[i][1] /\ fl[i][2] > 0
                           /\ Seg(fl[i]).hi <= o.cap
                           /\ (rewound \/ Seg(fl[i]).hi <= o.alloc)
  /\ \A i, j \in 1..Len(fl) : i < j => (Disjoint(Seg(fl[i]), Seg(fl[j])) /\ Ordered(kind, fl[i][2], fl[j][2]))
FLvsLive(fl, live) ==
  \A i \in 1..Len(fl) : \A h \in DOMAIN live : Disjoint(Seg(fl[i]), Acc(live[h]))
FLvsLeaked(fl, leaked) ==
  \A i \in 1..Len(fl) : \A k \in leaked : Disjoint(Seg(fl[i]), Acc(k))

SameObs(o1, o2) == /\ o1.alloc = o2.alloc /\ o1.disc = o2.disc /\ o1.rem = o2.rem /\ o1.fl = o2.fl
                   /\ o1.cap = o2.cap /\ o1.minseg = o2.minseg

Clamp(v, lo, hi) == IF v < lo THEN lo ELSE IF v > hi THEN hi ELSE v
Denote(op, o) == IF op.p = "start" THEN op.v ELSE IF op.p = "end" THEN o.cap - op.v ELSE o.alloc + op.v

NClones(s) == IF "nclones" \in DOMAIN s THEN s.nclones ELSE 0

\* ------------------------------------------------------------- successful allocation
\* mb = [zeroOnReturn]
AllocOkPreds(c, s, op, r, o, mb) ==
  LET fl0 == s.obs.fl
      fresh == r.ps = 0 \/ Min(r.mo, r.po) >= s.obs.alloc
      segIdx == {i \in 1..Len(fl0) : Inside(Acc(r), Seg(fl0[i]))}
      d == o.refs - s.obs.refs
  IN <<
  <<"C03", "ShapeOk", ShapeOk(op, r)>>,
  <<"C03", "AddressAligned",
      (r.amod < 0 \/ TSize(op) = 0 \/ TAlign(op) > c.maxalign) \/ r.amod % TAlign(op) = 0>>,
  <<"C03", "PointerMatchesOffset", r.ptr_off < 0 \/ r.ptr_off = r.po>>,
  <<"C03", "ZeroSizedTakesNothing", ZeroReq(op) => (r.ps = 0 /\ o.alloc = s.obs.alloc /\ o.fl = s.obs.fl)>>,
  <<"C01", "NewDisjointFromLive", \A h \in DOMAIN s.live : Disjoint(Acc(r), Acc(s.live[h]))>>,
  <<"C13", "NewDisjointFromDetached", \A k \in s.leaked : Disjoint(Acc(r), Acc(k))>>,
  <<"C01", "InBounds", r.ps = 0 \/ (s.doff <= r.po /\ r.po + r.ps <= o.alloc /\ o.alloc <= o.cap)>>,
  <<"C01", "ZstOccupiesNothing", ZeroReq(op) => r.ps = 0>>,
  <<"C16", "FirstAllocationAtDataOffset",
      (s.first /\ ~s.rewound /\ r.ps > 0 /\ s.obs.fl = <<>>) => r.po = Align(s.doff, TAlign(op))>>,
  <<"C08", "ZeroOnReturn", (op.k = "ab" /\ r.ps > 0) => mb.zeroOnReturn>>,
  <<"C10", "ReuseOnlyFromFreeSegment", fresh \/ segIdx # {}>>,
  <<"C10", "NoneNeverReuses", (c.kind = "none") => fresh>>,
  <<"C10", "OptimisticServesLargest", (c.kind = "opt" /\ ~fresh /\ segIdx # {}) => 1 \in segIdx>>,
  <<"C10", "PessimisticServesSmallestFit",
      (c.kind = "pes" /\ ~fresh /\ segIdx # {}) =>
         \A i \in segIdx : \A j \in 1..Len(fl0) : fl0[j][2] < fl0[i][2] => fl0[j][2] < NeedMax(op)>>,
  <<"C10", "RemainderHoldsMinimumSegment",
      \A i \in 1..Len(o.fl) : (\A j \in 1..Len(fl0) : fl0[j] # o.fl[i]) => o.fl[i][2] >= o.minseg>>,
  <<"C18", "FitsNewCapacity", s.truncated => (r.ps = 0 \/ r.po + r.ps <= o.cap)>>,
  <<"C13", "OwnedEmbedsOneArenaValue", IF r.owned THEN d \in {0, 1} /\ (r.ms > 0 => d = 1) ELSE d = 0>>
  >>

\* ------------------------------------------------------------- failed allocation
AllocErrPreds(c, s, op, r, o) ==
  LET fl0 == s.obs.fl IN <<
  <<"C04", "CleanErrorKind", r.k \in {"err_space", "err_ro"}>>,
  <<"C04", "FailedCallChangesNothing", SameObs(o, s.obs)>>,
  <<"C03", "ZeroSizedAlwaysSucceeds", ~ZeroReq(op) \/ r.k = "err_ro">>,
  <<"C10", "OptimisticFailsOnlyIfLargestTooSmall", c.kind = "opt" => (fl0 = <<>> \/ fl0[1][2] < NeedMax(op))>>,
  <<"C10", "PessimisticFailsOnlyIfNoneFits", c.kind = "pes" => \A j \in 1..Len(fl0) : fl0[j][2] < NeedMax(op)>>,
  <<"C18", "SucceedsIfFitsNewCapacity", s.truncated => s.obs.alloc + NeedFresh(op, s.obs.alloc) > s.obs.cap>>
  >>

\* ------------------------------------------------------------- drop / explicit dealloc of handle hr
\* ds = the (offset, size) pairs the arena's dealloc entry point received during the call
ReleasePreds(c, s, op, hr, ds, o) ==
  LET detDrop == op.k = "drop" /\ hr.det
      onTop == hr.mo + hr.ms = s.obs.alloc
      becameSeg == \E i \in 1..Len(o.fl) : (\A j \in 1..Len(s.obs.fl) : s.obs.fl[j] # o.fl[i])
  IN <<
  <<"C13", "ReleasesOwnExtentOnce",
      IF op.k = "dealloc" THEN TRUE
      ELSE IF hr.det THEN Len(ds) = 0
      ELSE IF hr.ms > 0 THEN Len(ds) = 1 /\ ds[1].off = hr.mo /\ ds[1].size = hr.ms
      ELSE Len(ds) = 0 \/ (Len(ds) = 1 /\ ds[1].off = hr.mo /\ ds[1].size = hr.ms)>>,
  <<"C13", "DetachedReleasesNothing",
      detDrop => (o.alloc = s.obs.alloc /\ o.disc = s.obs.disc /\ o.fl = s.obs.fl)>>,
  <<"C13", "RefsReturned", o.refs = s.obs.refs - hr.embeds>>,
  <<"C20", "NoneCountsNonTopRelease",
      (c.kind = "none" /\ ~detDrop /\ ~onTop /\ hr.ms > 0) => o.disc = s.obs.disc + hr.ms>>,
  <<"C20", "TooSmallReleaseCounted",
      (c.kind # "none" /\ ~detDrop /\ ~onTop /\ hr.ms > 0 /\ ~becameSeg /\ o.alloc = s.obs.alloc)
         => (o.disc = s.obs.disc + hr.ms /\ o.fl = s.obs.fl)>>,
  \* "a release too small to become a segment ... is never reused": too small by the minimum segment size IN FORCE (the
  \* one minimum_segment_size() reports), whenever it was set -- no segment that appears with a release is below it
  <<"C20", "TooSmallReleaseNeverASegment",
      \A i \in 1..Len(o.fl) : (\A j \in 1..Len(s.obs.fl) : s.obs.fl[j] # o.fl[i]) => o.fl[i][2] >= s.obs.minseg>>
  >>

\* ------------------------------------------------------------- the other calls
\* mb = [memSame, dataZero, bytesKept]
OtherPreds(c, s, op, r, o, mb) ==
  IF op.k = "discard" THEN <<
     <<"C20", "DiscardReturnsSum", r.k = "ok" /\ r.v = SumSizes(s.obs.fl)>>,
     <<"C20", "DiscardAccounts", o.disc = s.obs.disc + SumSizes(s.obs.fl)>>,
     <<"C20", "DiscardEmpties", o.fl = <<>> /\ o.alloc = s.obs.alloc>> >>
  ELSE IF op.k = "incdisc" THEN <<
     <<"C20", "IncreaseDiscardedAdds", o.disc = s.obs.disc + op.v /\ o.alloc = s.obs.alloc /\ o.fl = s.obs.fl>> >>
  ELSE IF op.k = "rewind" THEN <<
     <<"C17", "RewindClamps", o.alloc = Clamp(Denote(op, s.obs), s.doff, s.obs.cap)>>,
     <<"C17", "RewindChangesNothingElse",
         o.disc = s.obs.disc /\ o.fl = s.obs.fl /\ o.minseg = s.obs.minseg /\ o.cap = s.obs.cap /\ mb.memSame>> >>
  ELSE IF op.k = "clear" THEN <<
     <<"C17", "ClearResets", r.k = "ok" /\ o.alloc = s.doff /\ o.fl = <<>> /\ o.disc = 0
                             /\ o.minseg = s.obs.minseg /\ o.cap = s.obs.cap /\ o.rem = s.obs.cap - s.doff>>,
     <<"C17", "ClearZeroesData", mb.dataZero>> >>
  ELSE IF op.k = "mkclone" THEN <<
     <<"C13", "CloneAddsOneArenaValue", r.k = "ok" /\ o.refs = s.obs.refs + 1 /\ o.alloc = s.obs.alloc /\ o.fl = s.obs.fl>> >>
  ELSE IF op.k = "dropclone" /\ r.k = "ok" THEN <<
     <<"C13", "CloneDropReturnsOneRef", o.refs = s.obs.refs - 1 /\ o.alloc = s.obs.alloc /\ o.fl = s.obs.fl>> >>
  \* every arena value of the arena reports the capacity truncate has set (C18: "sets capacity() to max(n, allocated())
  \* ... afterwards allocations succeed exactly when they fit the new capacity"; a clone is a value of the same arena)
  ELSE IF op.k = "cobs" /\ r.k = "ok" THEN <<
     <<"C18", "EveryArenaValueSeesNewCapacity", r.cap = o.cap /\ r.alloc = o.alloc /\ r.rem = o.cap - o.alloc>>,
     \* C16: "the descriptive accessors ... report the mode and options the arena was created with": through every value
     \* of the arena (descr0 = what the first value reports at the same instant, itself judged at construction)
     <<"C16", "EveryArenaValueReportsSameMode",
         ("descr" \notin DOMAIN r) \/ (r.descr = r.descr0 /\ r.descr.minimum_segment_size = o.minseg /\ r.descr.discarded = o.disc)>> >>
  ELSE IF op.k = "truncate" /\ r.k # "na" THEN <<
     <<"C18", "TruncateSetsCapacity", r.k = "ok" /\ o.cap = Max(op.v, s.obs.alloc)>>,
     <<"C18", "TruncateKeepsState", o.alloc = s.obs.alloc /\ o.disc = s.obs.disc /\ o.fl = s.obs.fl
                                    /\ o.minseg = s.obs.minseg>>,
     <<"C18", "TruncateKeepsBytes", mb.bytesKept>>,
     \* file backend: the whole new capacity is backed by the file (the arena may be mapped at an offset into it)
     <<"C18", "FileBacksNewCapacity", ("flen" \notin DOMAIN r) \/ r.flen >= r.foff + o.cap>> >>
  ELSE <<>>

\* ------------------------------------------------------------- after every step
\* s2 = state after; mb = [liveIntact, leakedIntact, reservedOk]
StatePreds(c, s, s2, op, o, mb) == <<
  <<"C01", "LiveIntact", mb.liveIntact>>,
  <<"C13", "DetachedDataIntact", mb.leakedIntact>>,
  <<"C16", "ReservedUntouched", mb.reservedOk>>,
  <<"C16", "RemainingIsCapMinusAllocated", o.rem = o.cap - o.alloc /\ o.doff = s.doff>>,
  <<"C10", "FreeListWellFormed", FLShape(c.kind, s.doff, o.fl, o, s2.rewound)>>,
  <<"C10", "FreeListDisjointFromLive", FLvsLive(o.fl, s2.live)>>,
  <<"C13", "FreeListDisjointFromDetached", FLvsLeaked(o.fl, s2.leaked)>>,
  \* (a reopen after a private copy-on-write session goes back to what the file holds: judged by C05)
  <<"C20", "DiscardedMonotone", op.k \in {"clear", "reopen"} \/ o.disc >= s.obs.disc>>,
  <<"C13", "RefsCountArenaValues", o.refs = 1 + NClones(s2) + Cardinality({h \in DOMAIN s2.live : s2.live[h].embeds = 1})>>
  >>

PanicProp(op) == IF IsAlloc(op) THEN "C04" ELSE IF op.k \in {"rewind", "clear"} THEN "C17"
                 ELSE IF op.k = "truncate" THEN "C18" ELSE IF op.k \in {"discard", "incdisc"} THEN "C20" ELSE "C13"

AllHold(P) == \A i \in 1..Len(P) : P[i][3]
=============================================================================
