------------------------------- MODULE Handles -------------------------------
(***************************************************************************)
(* Lifetimes (C13): arena values, borrowed and owned handles, the          *)
(* reference count, the single release of the backing memory and           *)
(* remove-on-drop.  Implementation-level transcription of                  *)
(*   Clone/Drop for Arena (sync.rs 176-206, 1665-1704; unsync likewise),   *)
(*   BytesRefMut::to_owned (bytes.rs:365: a zero-sized buffer becomes a    *)
(*   clone-less BytesMut::null), RefMut::to_owned (object.rs:344: always   *)
(*   clones), the Drop impls of the four handle types, Memory::unmount.    *)
(*                                                                         *)
(* st = [vals, pins, hs, refs, released, rod, file, drops]                 *)
(*   vals : set of live arena value ids (0 = the original)                 *)
(*   hs   : handle id |-> [kind: "bytes"|"typed"|"dc", owned, det, zero,   *)
(*                         src (arena value a borrowed handle borrows)]    *)
(*   refs : reference count of the backing Memory                          *)
(*   released : how many times the backing memory was released             *)
(*   rod  : remove_on_drop flag;  file : "none" | "present" | "removed"    *)
(*   drops : how many times the value of a needs-drop handle was dropped   *)
(***************************************************************************)
EXTENDS Integers, Sequences, FiniteSets, TLC

Embeds(h) == h.owned /\ (h.kind # "bytes" \/ ~h.zero)

New(backend) == [vals |-> {0}, hs |-> [x \in {} |-> 0], refs |-> 1, released |-> 0, rod |-> FALSE,
                 \* "file_ro" / "file_cro": the file opened read-only (map / map_copy_read_only): no allocation, same lifetimes
                 file |-> IF backend \in {"file", "file_ro", "file_cro"} THEN "present" ELSE "none", drops |-> 0, nextH |-> 1, nextV |-> 1]

\* the memory goes when the count reaches zero (Drop for Arena: fetch_sub(1) == 1 -> unmount)
DecRef(st) ==
  LET r == st.refs - 1 IN
  IF r = 0 THEN [st EXCEPT !.refs = 0, !.released = st.released + 1,
                           !.file = IF st.file = "present" /\ st.rod THEN "removed" ELSE st.file]
  ELSE [st EXCEPT !.refs = r]

AliveVal(st) == CHOOSE v \in st.vals : \A w \in st.vals : v <= w      \* the harness allocates through the oldest live value

\* (object.rs: write() on a zero-sized slot stores nothing -- the value passed in goes out of scope there and then, which is
\* its one drop; Kind::Dangling handles drop nothing later)
Alloc(st, kind, owned, zero) ==
  LET h == [kind |-> kind, owned |-> owned, det |-> FALSE, zero |-> zero, src |-> IF owned THEN -1 ELSE AliveVal(st)]
      st1 == [st EXCEPT !.hs = (st.nextH :> h) @@ st.hs, !.nextH = st.nextH + 1,
                        !.drops = IF kind = "dc" /\ zero THEN st.drops + 1 ELSE st.drops] IN
  IF Embeds(h) THEN [st1 EXCEPT !.refs = st.refs + 1] ELSE st1

Without(f, k) == [i \in DOMAIN f \ {k} |-> f[i]]

\* dropping a handle: a needs-drop value is dropped unless detached; an embedded arena value goes with an owned handle
DropHandle(st, id) ==
  LET h == st.hs[id]
      st1 == [st EXCEPT !.hs = Without(st.hs, id),
                        !.drops = IF h.kind = "dc" /\ ~h.det /\ ~h.zero THEN st.drops + 1 ELSE st.drops] IN
  IF Embeds(h) THEN DecRef(st1) ELSE st1
Detach(st, id) == [st EXCEPT !.hs[id].det = TRUE]

Clone(st) == [st EXCEPT !.vals = st.vals \cup {st.nextV}, !.nextV = st.nextV + 1, !.refs = st.refs + 1]
Pinned(st, v) == \E id \in DOMAIN st.hs : st.hs[id].src = v
DropVal(st, v) == DecRef([st EXCEPT !.vals = st.vals \ {v}])
SetRod(st, b) == [st EXCEPT !.rod = b]

\* ops: [k: "ab"|"at"|"adc", o (owned), z (zero-sized)], [k: "drop"|"detach", h], [k: "clone"], [k: "dropval", v], [k: "rod", b]
Enabled(st, op) ==
  IF op.k \in {"ab", "at", "adc", "clone", "rod"} THEN st.vals # {}
  ELSE IF op.k \in {"drop", "detach"} THEN op.h \in DOMAIN st.hs
  ELSE op.v \in st.vals /\ ~Pinned(st, op.v)
Step(st, op) ==
  IF op.k = "ab" THEN Alloc(st, "bytes", op.o, op.z)
  ELSE IF op.k = "at" THEN Alloc(st, "typed", op.o, op.z)
  ELSE IF op.k = "adc" THEN Alloc(st, "dc", op.o, op.z)
  ELSE IF op.k = "drop" THEN DropHandle(st, op.h)
  ELSE IF op.k = "detach" THEN Detach(st, op.h)
  ELSE IF op.k = "clone" THEN Clone(st)
  ELSE IF op.k = "dropval" THEN DropVal(st, op.v)
  ELSE SetRod(st, op.b)

\* ---------------------------------------------------------------- C13 (the part about lifetimes)
Holders(st) == Cardinality(st.vals) + Cardinality({id \in DOMAIN st.hs : Embeds(st.hs[id])})
RefsEqualsArenaValues(st) == st.refs = Holders(st)
ReleasedExactlyAtZero(st) == st.released = (IF Holders(st) = 0 THEN 1 ELSE 0)
FileRemovedExactlyThen(st) == st.file = "none" \/ (st.file = "removed") = (st.released = 1 /\ st.rod)
\* per step: the drop counter moves by one exactly for a non-detached needs-drop handle
\* ... and over the life of a needs-drop handle that is dropped without having been detached the value is dropped exactly
\* once (vd = drops attributed to the handle so far: at its write, for a zero-sized value)
DropDelta(st, op, st2) ==
  st2.drops - st.drops = (IF op.k = "drop" /\ st.hs[op.h].kind = "dc" /\ ~st.hs[op.h].det /\ ~st.hs[op.h].zero THEN 1
                          ELSE IF op.k = "adc" /\ op.z THEN 1 ELSE 0)
DroppedOnceOverLife(st, op, st2) ==
  (op.k = "drop" /\ st.hs[op.h].kind = "dc" /\ ~st.hs[op.h].det)
     => (IF st.hs[op.h].zero THEN 1 ELSE 0) + (st2.drops - st.drops) = 1
=============================================================================
