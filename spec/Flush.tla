------------------------------- MODULE Flush -------------------------------
(***************************************************************************)
(* Beyond the listed properties: which byte ranges the flush family of     *)
(* calls hands to msync(2), transcribed from memory.rs                     *)
(*   flush / flush_async (836-850): the whole mapping                      *)
(*   flush_range / flush_async_range (854-885)                             *)
(*   flush_header_and_range / flush_async_header_and_range (889-980)       *)
(*   flush_header / flush_async_header = the former with (0, 0)            *)
(* and from memmap2's MmapInner::flush / flush_async, which round the      *)
(* start down to a page boundary and extend the length by the same amount. *)
(*                                                                         *)
(* A decision is [k |-> "err"] (range out of bounds) or                    *)
(* [k |-> "ok", reqs |-> <<[start, len], ...>>] (the requests given to the *)
(* mapping, in order).  P = page size, mlen = length of the mapping,       *)
(* hoff/hsize = where the in-file header lives.                            *)
(***************************************************************************)
EXTENDS Integers, Sequences, FiniteSets

CONSTANT P

Min2(a, b) == IF a <= b THEN a ELSE b
Max2(a, b) == IF a >= b THEN a ELSE b
CeilDiv(a, b) == (a + b - 1) \div b
Req(s, n) == [start |-> s, len |-> n]
Ok(reqs) == [k |-> "ok", reqs |-> reqs]
Err == [k |-> "err", reqs |-> <<>>]

FlushAll(mlen) == Ok(<<Req(0, mlen)>>)

\* the sum is computed in usize by the code (`offset + len > mmap_len`); here it is exact
FlushRange(off, len, mlen) == IF off + len > mlen THEN Err ELSE Ok(<<Req(off, len)>>)

FlushHeaderAndRange(off, len, mlen, hoff, hsize) ==
  IF len = 0 THEN Ok(<<Req(hoff, hsize)>>)
  ELSE IF off + len > mlen THEN Err
  ELSE LET hend == hoff + hsize
           fend == off + len
           hsp == hoff \div P
           hep == CeilDiv(hend, P)
           rsp == off \div P
           rep == CeilDiv(fend, P)
       IN IF hsp = rsp /\ hep = rep
          THEN LET s == Min2(hoff, off) IN Ok(<<Req(s, Max2(hend, fend) - s)>>)
          ELSE IF off <= hoff /\ hend <= fend THEN Ok(<<Req(off, len)>>)
          ELSE Ok(<<Req(hoff, hsize), Req(off, len)>>)

Decide(op, off, len, mlen, hoff, hsize) ==
  IF op \in {"flush", "flush_async"} THEN FlushAll(mlen)
  ELSE IF op \in {"flush_range", "flush_async_range"} THEN FlushRange(off, len, mlen)
  ELSE IF op \in {"flush_header", "flush_async_header"} THEN FlushHeaderAndRange(0, 0, mlen, hoff, hsize)
  ELSE FlushHeaderAndRange(off, len, mlen, hoff, hsize)

\* memmap2: alignment = (ptr + offset) % page; msync(ptr + offset - alignment, len + alignment) (ptr is page aligned)
Msync(r) == [start |-> (r.start \div P) * P, len |-> r.len + (r.start % P)]
IsAsync(op) == op \in {"flush_async", "flush_async_range", "flush_async_header", "flush_async_header_and_range"}

\* ---------------------------------------------------------------- what a user relies on
\* pages written back by a sequence of msync calls
PagesOf(ms) == UNION {IF ms[i].len = 0 THEN {} ELSE (ms[i].start \div P)..((ms[i].start + ms[i].len - 1) \div P) : i \in 1..Len(ms)}
PagesOfBytes(lo, hi) == IF hi <= lo THEN {} ELSE (lo \div P)..((hi - 1) \div P)

WantsHeader(op) == op \in {"flush_header", "flush_async_header", "flush_header_and_range", "flush_async_header_and_range"}
WantsRange(op) == op \in {"flush_range", "flush_async_range", "flush_header_and_range", "flush_async_header_and_range"}

\* every page holding a byte the caller asked for (and the header, for the header variants) is written back
Covered(op, off, len, mlen, hoff, hsize, ms) ==
  /\ WantsHeader(op) => PagesOfBytes(hoff, hoff + hsize) \subseteq PagesOf(ms)
  /\ WantsRange(op) => PagesOfBytes(off, off + len) \subseteq PagesOf(ms)
  /\ (op \in {"flush", "flush_async"}) => PagesOfBytes(0, mlen) \subseteq PagesOf(ms)
\* nothing outside the mapping is handed to the kernel
InBounds(mlen, ms) == \A i \in 1..Len(ms) : ms[i].start >= 0 /\ ms[i].start + ms[i].len <= CeilDiv(mlen, P) * P
\* a request is refused exactly when it does not lie inside the mapping (a zero-length header-and-range request asks
\* for the header only)
ShouldRefuse(op, off, len, mlen) ==
  WantsRange(op) /\ off + len > mlen /\ ~(op \in {"flush_header_and_range", "flush_async_header_and_range"} /\ len = 0)
=============================================================================
