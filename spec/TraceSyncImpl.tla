---------------------------- MODULE TraceSyncImpl ----------------------------
(***************************************************************************)
(* Implementation-level trace specification for the controlled scheduler:  *)
(* every recorded scheduling point of the real sync::Arena (atomic access, *)
(* Meta::clear, user step) must be exactly the step ArenaSync takes for    *)
(* that thread -- same kind, location, operands, memory orderings, value   *)
(* read and CAS outcome -- and every handle returned must be the one the   *)
(* model computed.  A trace holds many schedules of ONE scenario           *)
(* (constants = configuration, setup state and programs); `reset` events   *)
(* start the next schedule from Init.                                      *)
(* A mismatch prints <<"DRIFT", line, thread, what>>: the model no longer  *)
(* speaks for the code (informational, never a verdict).                   *)
(***************************************************************************)
EXTENDS ArenaSync, Json, IOUtils

Rec == ndJsonDeserialize(IOEnv.TRACE)

VARIABLES l, on
tvars == <<vars, l, on>>

Drift(t, what) == PrintT(<<"DRIFT", l, t, what>>)

AsPair(w) == <<w.size, w.next>>
EvLoc(e) == IF e.loc = "cursor" THEN CUR ELSE IF e.loc = "disc" THEN DISC ELSE IF e.loc = "minseg" THEN MSEG
            ELSE IF e.loc = "sent" THEN SENT ELSE IF e.loc = "refs" THEN REFS ELSE IF e.loc = "node" THEN e.off ELSE -99
IsWordLoc(at) == at = SENT \/ at >= 0

\* does the logged access e equal the model access a (with model old value `old` and outcome `ok`)?
Matches(e, a, old, ok) ==
  IF e.ev = "acc" THEN
     /\ a.kind = e.kind /\ a.at = EvLoc(e) /\ a.so = e.so /\ a.fo = e.fo
     /\ IF IsWordLoc(a.at)
        THEN /\ e.old = AsPair(old)
             /\ (a.kind \in {"cas", "casw"}) => (e.a0 = AsPair(a.exp) /\ e.a1 = AsPair(a.new))
             /\ (a.kind = "store") => e.a0 = AsPair(a.exp)
        ELSE /\ e.old = old
             /\ (a.kind \in {"cas", "casw"}) => (e.a0 = a.exp /\ e.a1 = a.new)
             /\ (a.kind \in {"store", "fadd", "fsub"}) => e.a0 = a.exp
     /\ e.ok = ok
  ELSE IF e.ev = "zero" THEN a.kind = "zero" /\ a.exp = e.off /\ a.new = e.len
  ELSE IF e.ev = "unmount" THEN a.kind = "unmount"
  ELSE \* user step logged at its return
     /\ a.kind = e.op.k /\ a.exp = e.op.h

IsStepEvent(e) == e.ev \in {"acc", "zero", "unmount"} \/ (e.ev = "ret" /\ e.op.k \in {"fill", "verify", "write"} /\ e.res.k = "ok")

Init0 == Init /\ l = 1 /\ on = FALSE /\ TLCSet(7, {})

Reset ==
  /\ Rec[l].ev = "reset"
  /\ cursor' = Setup.cursor /\ disc' = Setup.disc /\ minseg' = MinSeg0 /\ sent' = Setup.sent /\ mem' = Setup.mem
  /\ hs' = Setup.handles /\ live' = DOMAIN Setup.handles
  /\ pc' = [t \in Threads |-> "idle"] /\ loc' = [t \in Threads |-> L0]
  /\ ip' = [t \in Threads |-> SkipFrom(t, 1, DOMAIN Setup.handles)]
  /\ refs' = Setup.refs /\ freed' = 0 /\ touchedAfterFree' = FALSE
  /\ on' = Rec[l].ok
  /\ (Rec[l].ok /\ ~(Rec[l].obs.alloc = Setup.cursor /\ Rec[l].obs.disc = Setup.disc)) => Drift(-1, "setup-state")
  /\ l' = l + 1

\* the model step of thread e.t must be enabled and equal to the logged one
Tracked ==
  LET e == Rec[l] t == e.t IN
  /\ on /\ IsStepEvent(e)
  /\ IF t \notin Threads \/ Finished(t) \/ pc[t] = "oob"
     THEN Drift(t, "thread-has-no-step-in-model") /\ on' = FALSE /\ UNCHANGED vars
     ELSE LET fresh == pc[t] = "idle"
              op == ProgOf(t)[ip[t]]
              b == IF fresh THEN StartOf(t, op) ELSE Goto(loc[t], pc[t])
              a == Access(b.pc, b.loc)
              old == Read(a.at)
              ok == IF a.kind \in {"cas", "casw"} THEN old = a.exp ELSE TRUE
          IN IF Matches(e, a, old, ok)
             \* (register 7: the micro-op labels the real code executed, reported at the end: non-vacuity of the binding)
             THEN Step(t) /\ on' = on /\ TLCSet(7, TLCGet(7) \cup {b.pc})
             ELSE Drift(t, b.pc) /\ on' = FALSE /\ UNCHANGED vars
  /\ l' = l + 1

\* an allocation returned: the handle must be the one the model has just recorded
RetAlloc ==
  LET e == Rec[l] IN
  /\ on /\ e.ev = "ret" /\ e.op.k \in {"ab", "at", "aa"}
  /\ IF e.res.k = "ok"
     THEN IF e.res.h \in DOMAIN hs /\ hs[e.res.h].mo = e.res.mo /\ hs[e.res.h].ms = e.res.ms
             /\ hs[e.res.h].po = e.res.po /\ hs[e.res.h].ps = e.res.ps
          THEN on' = on ELSE Drift(e.t, "returned-handle") /\ on' = FALSE
     ELSE on' = on
  /\ UNCHANGED vars /\ l' = l + 1

Untracked ==
  LET e == Rec[l] IN
  /\ e.ev # "reset"
  /\ ~(on /\ (IsStepEvent(e) \/ (e.ev = "ret" /\ e.op.k \in {"ab", "at", "aa"})))
  /\ UNCHANGED <<vars, on>> /\ l' = l + 1

TNext == l <= Len(Rec) /\ (Reset \/ Tracked \/ RetAlloc \/ Untracked)
TSpec == Init0 /\ [][TNext]_tvars

Consumed == TLCGet("stats").diameter - 1 = Len(Rec)
Post == IF Consumed THEN PrintT(<<"LABELS", TLCGet(7)>>) /\ PrintT(<<"TRACE-CONSUMED", Len(Rec)>>)
        ELSE PrintT(<<"TRACE-STUCK", TLCGet("stats").diameter, Len(Rec)>>) /\ FALSE
=============================================================================
