------------------------------ MODULE TraceCrash ------------------------------
(***************************************************************************)
(* C06 on real crash points: the controlled scheduler copies the arena     *)
(* file as it is between two atomic accesses (every thread parked) and     *)
(* records the ranges that had been returned and not yet released; a child *)
(* process reopens the copy with map_mut and runs a probe program under an *)
(* alarm.  Judged here: the file opens, the cursor lies in                 *)
(* [data_offset, capacity], every pre-crash live range keeps its bytes     *)
(* (after the reopen and after the probe) and is never handed out again,   *)
(* and the probe terminates.                                               *)
(***************************************************************************)
EXTENDS Common, TLC, Json, IOUtils

Rec == ndJsonDeserialize(IOEnv.TRACE)
VARIABLES l, pre
vars == <<l, pre>>
Viol(prop, pred, ok) == IF ok THEN TRUE ELSE PrintT(<<"VIOL", prop, pred, l, 0>>)

Rebase(runs, d) == [i \in 1..Len(runs) |-> <<runs[i][1] - d, runs[i][2], runs[i][3]>>]
Keeps(mem, x) == x.ps = 0 \/ Rebase(Window(mem, x.po, x.po + x.ps), x.po) = x.bytes
AllKeep(mem) == \A k \in 1..Len(pre) : Keeps(mem, pre[k])

Init == l = 1 /\ pre = <<>>
Step ==
  LET e == Rec[l] IN
  /\ IF e.ev = "reset" THEN pre' = e.live
     ELSE /\ pre' = pre
          /\ IF e.ev = "p_open" THEN
                /\ Viol("C06", "ReopenSucceeds", e.res.k = "ok")
                /\ (e.res.k = "ok") =>
                     /\ Viol("C06", "CursorInBounds", e.obs.doff <= e.obs.alloc /\ e.obs.alloc <= e.obs.cap)
                     /\ Viol("C06", "PreCrashLiveKeepsBytes", AllKeep(e.mem))
             ELSE IF e.ev = "p_op" THEN
                (e.op.k = "ab" /\ e.res.k = "ok") =>
                   Viol("C06", "PreCrashLiveNeverHandedOutAgain",
                        \A k \in 1..Len(pre) : Disjoint(Rng(e.res.po, e.res.po + e.res.ps), Rng(pre[k].po, pre[k].po + pre[k].ps)))
             ELSE IF e.ev = "p_done" THEN Viol("C06", "PreCrashLiveKeepsBytesAfterProbe", AllKeep(e.mem))
             ELSE IF e.ev = "p_panic" THEN Viol("C06", "ProbeDoesNotPanic", FALSE)
             ELSE IF e.ev = "p_exit" THEN
                /\ Viol("C06", "ProbeTerminates", ~e.timeout)
                /\ Viol("C06", "ProbeDoesNotCrash", e.timeout \/ e.signal = 0)
             ELSE TRUE
  /\ l' = l + 1
Next == l <= Len(Rec) /\ Step
Spec == Init /\ [][Next]_vars
Consumed == TLCGet("stats").diameter - 1 = Len(Rec)
Post == IF Consumed THEN PrintT(<<"TRACE-CONSUMED", Len(Rec)>>)
        ELSE PrintT(<<"TRACE-STUCK", TLCGet("stats").diameter, Len(Rec)>>) /\ FALSE
=============================================================================
