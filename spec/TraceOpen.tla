------------------------------ MODULE TraceOpen ------------------------------
(***************************************************************************)
(* C09 (first half) on real open attempts recorded by `rvh open`: the file *)
(* as it was before the attempt is decoded into the abstract file of       *)
(* ArenaFile, the outcome (result, file length, whether bytes that were in *)
(* the file changed) is read off the file after it, and the predicates of  *)
(* ArenaFile are evaluated on it (VIOL).  The outcome is also compared     *)
(* with what ArenaFile!Open predicts (DRIFT).                              *)
(***************************************************************************)
EXTENDS ArenaFile, Json, IOUtils

Rec == ndJsonDeserialize(IOEnv.TRACE)
VARIABLE l
Viol(prop, pred, ok) == IF ok THEN TRUE ELSE PrintT(<<"VIOL", prop, pred, l, 0>>)

B(runs, i) == ByteAt(runs, i)
KindByte(s) == IF s = "none" THEN 0 ELSE IF s = "opt" THEN 1 ELSE 2

Decode(b, res) ==
  IF ~b.exists THEN [exists |-> FALSE, len |-> 0, kind |-> 0, text |-> "al", magic |-> 0, ver |-> 0, cursor |-> 0, tail |-> "zero"]
  ELSE IF b.len < Prefix(res) THEN [exists |-> TRUE, len |-> b.len, kind |-> 0, text |-> "al", magic |-> 0, ver |-> 0, cursor |-> 0, tail |-> "zero"]
  ELSE LET r == b.rle
           cur4 == Align8(res) + 16
           \* saturate: a stored cursor beyond 2^30 is "huge"
           cursor == IF B(r, cur4 + 3) >= 64 THEN SAT ELSE B(r, cur4) + 256 * B(r, cur4 + 1) + 65536 * B(r, cur4 + 2) + 16777216 * B(r, cur4 + 3)
       IN [exists |-> TRUE, len |-> b.len, kind |-> B(r, res + 1),
           text |-> IF B(r, res + 2) = 97 /\ B(r, res + 3) = 108 THEN "al" ELSE "xx",
           magic |-> B(r, res + 4) + 256 * B(r, res + 5), ver |-> B(r, res + 6) + 256 * B(r, res + 7),
           cursor |-> cursor, tail |-> IF cursor < b.len /\ ~RangeIs(r, cursor, b.len, 0) THEN "data" ELSE "zero"]

AttOf(a) == [variant |-> a.variant, cap |-> a.cap, reserved |-> a.reserved, kind |-> KindByte(a.kind), magic |-> a.magic,
             create |-> a.create, create_new |-> a.create_new,
             truncate |-> IF "truncate" \in DOMAIN a THEN a.truncate ELSE FALSE, append |-> IF "append" \in DOMAIN a THEN a.append ELSE FALSE]

Step ==
  LET e == Rec[l] IN
  /\ IF e.ev = "open" THEN
        LET att == AttOf(e.att)
            f == Decode(e.before, att.reserved)
            changed == e.before.exists /\ e.after.exists /\ Clip(e.after.rle, e.before.len) # e.before.rle
            real == [res |-> IF e.res.k = "ok" THEN "ok" ELSE IF e.res.k = "panic" THEN "panic" ELSE e.res.kind,
                     len |-> e.after.len, tailZeroed |-> changed \/ (e.before.exists /\ ~e.after.exists), created |-> FALSE]
            model == Open(f, att)
        IN /\ Viol("C09", "MismatchRefused", MismatchRefused(f, att, real))
           /\ Viol("C09", "RefusedOpenLeavesBytes", RefusedLeavesBytes(f, att, real))
           /\ Viol("C09", "ReadOnlyOpenNeverWrites", ReadOnlyNeverWrites(f, att, real))
           /\ Viol("C09", "NoPanic", e.res.k # "panic")
           \* the arena mapped at a file offset (Options::with_offset): the foreign bytes in front of it are part of the
           \* file a refused or read-only open must leave alone -- and no open has any business there
           /\ Viol("C09", "BytesBeforeOffsetUntouched",
                   (e.before.exists /\ e.after.exists /\ e.before.pre_len = e.att.offset /\ ~AskedToTruncate(att))
                      => (e.after.pre_len = e.before.pre_len /\ e.after.pre_ok))
           /\ ((model.res # real.res \/ model.tailZeroed # real.tailZeroed \/ (f.exists /\ model.len # real.len))
                 => PrintT(<<"DRIFT", l, 0, "open-outcome">>) /\ PrintT(<<"DRIFT-DETAIL", l, ToJson([model |-> model, real |-> real, file |-> f])>>))
     ELSE TRUE
  /\ l' = l + 1

Init == l = 1
Next == l <= Len(Rec) /\ Step
Spec == Init /\ [][Next]_l
Consumed == TLCGet("stats").diameter - 1 = Len(Rec)
Post == IF Consumed THEN PrintT(<<"TRACE-CONSUMED", Len(Rec)>>)
        ELSE PrintT(<<"TRACE-STUCK", TLCGet("stats").diameter, Len(Rec)>>) /\ FALSE
=============================================================================
