SPECIFICATION Spec
CONSTANTS
  P = 32
INVARIANTS RefusesExactlyOutOfBounds CoversWhatWasAsked StaysInsideMapping AtMostTwoCalls
CHECK_DEADLOCK FALSE
