------------------------------- MODULE TraceHB -------------------------------
(***************************************************************************)
(* C12 on real executions: rebuilds the happens-before relation of a run   *)
(* recorded by the controlled scheduler from the memory orderings the code *)
(* actually passed to its atomic operations (the hook reports them), and   *)
(* checks every plain access -- Meta::clear, the harness's user writes and *)
(* reads through handles, the unmapping of the backing memory -- and every *)
(* atomic access of a node word against the earlier conflicting accesses   *)
(* to the same bytes.  An unordered conflicting pair prints                *)
(*   <<"VIOL", "C12", "DataRace", line, 0>> and <<"RACE", line, s1, s2>>.  *)
(***************************************************************************)
EXTENDS HB, TLC, Json, IOUtils

Rec == ndJsonDeserialize(IOEnv.TRACE)

VARIABLES l, hb, N, cap, reported
vars == <<l, hb, N, cap, reported>>

CUR == -10
DISC == -11
MSEG == -12
SENT == -2
REFS == -14
LocKey(e) == IF e.loc = "cursor" THEN CUR ELSE IF e.loc = "disc" THEN DISC ELSE IF e.loc = "minseg" THEN MSEG
             ELSE IF e.loc = "sent" THEN SENT ELSE IF e.loc = "refs" THEN REFS ELSE IF e.loc = "node" THEN e.off ELSE -99
Tid(e) == IF e.t < 0 THEN N ELSE e.t
Writes(e) == e.kind \in {"store", "fadd", "fsub"} \/ (e.kind \in {"cas", "casw"} /\ e.ok)

Init == l = 1 /\ hb = HBInit(0) /\ N = 0 /\ cap = 0 /\ reported = {}

Report(h) ==
  \A r \in h.races \ reported :
      PrintT(<<"VIOL", "C12", "DataRace", l, 0>>) /\ PrintT(<<"RACE", l, r[1], r[2]>>)

StepReset ==
  LET e == Rec[l] IN
  /\ e.ev = "reset"
  /\ IF e.ok
     THEN LET n == e.nthreads
              h0 == HBInit(n)
              \* everything the setup did (on the main thread, index n) happens before the threads start
              h1 == Access(h0, n, 0, e.obs.cap, "w", <<"setup", "all">>)
              F[i \in 0..n] == IF i = 0 THEN h1 ELSE Inherit(F[i - 1], i - 1, n)
          IN hb' = Spawned(F[n], n) /\ N' = n /\ cap' = e.obs.cap
     ELSE hb' = HBInit(0) /\ N' = 0 /\ cap' = 0
  /\ reported' = {}
  /\ l' = l + 1

StepAcc ==
  LET e == Rec[l] t == Tid(e) IN
  /\ e.ev = "acc"
  /\ LET h1 == IF e.loc = "node"
               THEN Access(hb, t, e.off, e.off + 8, IF Writes(e) THEN "aw" ELSE "ar", <<e.kind, "node">>)
               ELSE hb
         h2 == Atomic(h1, t, LocKey(e), e.kind, e.ok, e.so, e.fo)
     IN hb' = h2 /\ Report(h2) /\ reported' = h2.races
  /\ UNCHANGED <<N, cap>> /\ l' = l + 1

StepPlain ==
  LET e == Rec[l] t == Tid(e) IN
  /\ \/ e.ev \in {"zero", "unmount"}
     \/ (e.ev = "ret" /\ e.op.k \in {"fill", "write", "verify"} /\ e.res.k = "ok")
  /\ LET h2 == IF e.ev = "zero" THEN Access(hb, t, e.off, e.off + e.len, "w", <<"zero", "clear">>)
               ELSE IF e.ev = "unmount" THEN Access(hb, t, 0, cap, "w", <<"unmount", "all">>)
               ELSE IF e.op.k = "fill" THEN Access(hb, t, e.res.po, e.res.po + e.res.ps, "w", <<"user", "fill">>)
               ELSE IF e.op.k = "write" THEN Access(hb, t, e.res.po + e.op.at, e.res.po + e.op.at + 8, "w", <<"user", "write">>)
               ELSE Access(hb, t, e.res.po, e.res.po + e.res.ps, "r", <<"user", "verify">>)
     IN hb' = h2 /\ Report(h2) /\ reported' = h2.races
  /\ UNCHANGED <<N, cap>> /\ l' = l + 1

StepSkip ==
  LET e == Rec[l] IN
  /\ ~(e.ev \in {"reset", "acc", "zero", "unmount"} \/ (e.ev = "ret" /\ e.op.k \in {"fill", "write", "verify"} /\ e.res.k = "ok"))
  /\ UNCHANGED <<hb, N, cap, reported>> /\ l' = l + 1

Next == l <= Len(Rec) /\ (StepReset \/ StepAcc \/ StepPlain \/ StepSkip)
Spec == Init /\ [][Next]_vars

Consumed == TLCGet("stats").diameter - 1 = Len(Rec)
Post == IF Consumed THEN PrintT(<<"TRACE-CONSUMED", Len(Rec)>>)
        ELSE PrintT(<<"TRACE-STUCK", TLCGet("stats").diameter, Len(Rec)>>) /\ FALSE
=============================================================================
