------------------------------- MODULE Buffer -------------------------------
(***************************************************************************)
(* The write/read cursor machine of BytesRefMut / BytesMut                 *)
(* (rarena-allocator/src/lib.rs macros put_byte_order, get_byte_order,     *)
(* put_varint, get_varint, impl_bytes_mut_utils, impl_bytes_utils;         *)
(* bytes.rs).                                                              *)
(*                                                                         *)
(* Part 1 - the machine (implementation level): a buffer is a window       *)
(*   [po, po+cap) of the arena memory `mem` with a cursor `len`; `mo` is   *)
(*   the offset of the underlying allocation (mo <= po: aligned            *)
(*   allocations and recycled segments start their accessible part later). *)
(*   Integer values are sequences of bytes in SIGNIFICANCE order (most     *)
(*   significant first), so a byte order is the identity or a reversal and *)
(*   no wide arithmetic is needed.  Apply(s, op, nle, variant) is one call.*)
(*   variant = "repaired" is the code after the fix: commits; "orig" keeps *)
(*   the three original defects so that the checks can be shown to see     *)
(*   them in the model as well.                                            *)
(* Part 2 - property C14 as predicates over one observed step              *)
(*   (before, call, result, after).  They are evaluated by MCBuffer in     *)
(*   every transition of the machine and by TraceBuffer on every event of  *)
(*   a real execution.  They say what the property says, not how the code  *)
(*   does it.                                                              *)
(***************************************************************************)
EXTENDS Integers, Sequences

Rev(s) == [i \in 1..Len(s) |-> s[Len(s) + 1 - i]]
AlignUp(x, a) == ((x + a - 1) \div a) * a
MinOf(a, b) == IF a <= b THEN a ELSE b
MaxOf(a, b) == IF a >= b THEN a ELSE b

\* memory image of a value given in significance order; nle = the target is little-endian
Enc(ord, v, nle) == IF ord = "be" \/ (ord = "ne" /\ ~nle) THEN v ELSE Rev(v)
\* value (significance order) of a memory image: reversal is an involution
Dec(ord, b, nle) == Enc(ord, b, nle)

Size(ty) == CASE ty \in {"u8", "i8"} -> 1
              [] ty \in {"u16", "i16"} -> 2
              [] ty \in {"u32", "i32"} -> 4
              [] ty \in {"u64", "i64", "usize", "isize"} -> 8
              [] ty \in {"u128", "i128"} -> 16

\* ------------------------------------------------------------------ part 1: the machine
\* s = [mem, mo, ms, po, cap, len]; offsets are 0-based, mem is 1-based
BufOf(s) == SubSeq(s.mem, s.po + 1, s.po + s.cap)
OutOf(s) == [i \in 1..Len(s.mem) |-> IF i > s.po /\ i <= s.po + s.cap THEN 0 ELSE s.mem[i]]
WriteAt(mem, off, bs) ==
  [i \in 1..Len(mem) |-> IF i > off /\ i <= off + Len(bs) THEN bs[i - off] ELSE mem[i]]
Fill(mem, lo, hi, v) == [i \in 1..Len(mem) |-> IF i > lo /\ i <= hi THEN v ELSE mem[i]]

OK == [k |-> "ok"]
ERR == [k |-> "err"]
R(s, r) == [st |-> s, res |-> r]
PtrRes(off, a) == [k |-> "ok", zst |-> FALSE, poff |-> off, pmod |-> off % a]
ZstRes == [k |-> "ok", zst |-> TRUE, poff |-> 0, pmod |-> 0]

\* put_<ty>_<ord> / write_<ty>_<ord> / put_slice / put::<T>: lib.rs:301-338, 484-515
PutBytes(s, bs) ==
  IF s.len + Len(bs) > s.cap THEN R(s, ERR)
  ELSE R([s EXCEPT !.mem = WriteAt(s.mem, s.po + s.len, bs), !.len = s.len + Len(bs)], OK)

\* get_<ty>_<ord>: the trailing SIZE bytes, len shrinks (lib.rs:597-634)
GetBytes(s, k, ord, nle, variant) ==
  IF s.len < k THEN R(s, ERR)
  ELSE LET img == SubSeq(BufOf(s), s.len - k + 1, s.len)
           eff == IF variant = "orig" THEN "be" ELSE ord   \* the original macro ignored $converter
       IN R([s EXCEPT !.len = s.len - k], [k |-> "ok", v |-> Dec(eff, img, nle)])

\* align_to::<T>: lib.rs:388-409
AlignTo(s, size, a, variant) ==
  IF size = 0 THEN R(s, ZstRes)
  ELSE IF variant = "orig"
  THEN LET al == AlignUp(s.mo + s.len, a) IN      \* aligned the allocation offset, applied it to the accessible one
       IF al > s.mo + s.ms THEN R(s, ERR)
       ELSE R([s EXCEPT !.len = al - s.mo], PtrRes(s.po + (al - s.mo), a))
  ELSE LET al == AlignUp(s.po + s.len, a) IN
       IF al > s.po + s.cap THEN R(s, ERR)
       ELSE R([s EXCEPT !.len = al - s.po], PtrRes(al, a))

\* put_aligned::<T>: lib.rs:470-483
PutAligned(s, size, a, bs, variant) ==
  IF size = 0 THEN R(s, ZstRes)
  ELSE LET r == AlignTo(s, size, a, variant) IN
       IF r.res.k = "err" THEN R(s, ERR)
       ELSE IF variant # "orig" /\ r.st.len + size > s.cap THEN R(s, ERR)   \* the original wrote without this check
       ELSE R([r.st EXCEPT !.mem = WriteAt(s.mem, r.res.poff, bs), !.len = r.st.len + size], r.res)

\* put::<T> (caller aligned the position beforehand)
PutT(s, size, a, bs) ==
  IF size = 0 THEN R(s, ZstRes)
  ELSE LET r == PutBytes(s, bs) IN
       IF r.res.k = "err" THEN r ELSE R(r.st, PtrRes(s.po + s.len, a))

\* set_len: lib.rs:411-431
SetLen(s, n) ==
  IF n > s.cap THEN R(s, [k |-> "panic"])
  ELSE R([s EXCEPT !.len = n, !.mem = Fill(s.mem, s.po + MinOf(n, s.len), s.po + MaxOf(n, s.len), 0)], OK)

\* LEB128 is opaque: the call carries the encoding `enc` the library would produce (continuation bytes >= 128)
PutVarint(s, enc) ==
  IF s.len + Len(enc) > s.cap THEN R(s, [k |-> "err", need |-> Len(enc)])
  ELSE R([s EXCEPT !.mem = WriteAt(s.mem, s.po + s.len, enc), !.len = s.len + Len(enc)],
         [k |-> "ok", n |-> Len(enc), need |-> Len(enc)])

\* get_<ty>_varint decodes from the start of the written part; the model's "value" of an encoding is the encoding
Terminator(bs) == IF \E i \in 1..Len(bs) : bs[i] < 128
                  THEN CHOOSE i \in 1..Len(bs) : bs[i] < 128 /\ \A j \in 1..(i - 1) : bs[j] >= 128
                  ELSE 0

GetVarint(s) ==
  LET t == Terminator(SubSeq(BufOf(s), 1, s.len)) IN
  IF t = 0 THEN R(s, ERR) ELSE R(s, [k |-> "ok", n |-> t, v |-> SubSeq(BufOf(s), 1, t)])

Apply(s, op, nle, variant) ==
  CASE op.k = "put" -> PutBytes(s, Enc(op.ord, op.v, nle))
    [] op.k = "get" -> GetBytes(s, Size(op.ty), op.ord, nle, variant)
    [] op.k = "slice" -> PutBytes(s, op.b)
    [] op.k = "setlen" -> SetLen(s, op.n)
    [] op.k = "align" -> AlignTo(s, op.s, op.a, variant)
    [] op.k = "putt" -> PutT(s, op.s, op.a, op.b)
    [] op.k = "putal" -> PutAligned(s, op.s, op.a, op.b, variant)
    [] op.k = "putv" -> PutVarint(s, op.enc)
    [] op.k = "getv" -> GetVarint(s)

\* ------------------------------------------------------------------ part 2: property C14
(* c    = [po, cap, bmod, nle]   buffer window, base address residue, endianness of the target
   m    = [last, vhead]          what the previous calls established (round-trip obligations)
   pre  = [len, buf, out]        observation before the call; post after
   op   = the call; res = its result                                                        *)
Has(r, f) == f \in DOMAIN r
P(name, ok) == <<"C14", name, ok>>
\* total versions of SubSeq: a window that leaves the buffer (possible only after a violation) equals no byte string
Sub(b, lo, hi) == IF lo >= 1 /\ hi <= Len(b) THEN SubSeq(b, lo, hi) ELSE <<-1>>
Prefix(b, n) == Sub(b, 1, n)

NoLast == [k |-> "none"]
NoHead == [k |-> "none"]
Mon0 == [last |-> NoLast, vhead |-> NoHead]

Unchanged(pre, post) == <<P("FailLeavesLen", post.len = pre.len), P("FailLeavesBytes", post.buf = pre.buf)>>

\* the value lands at [at, at+k) of the buffer, len moves past it, everything stored before stays
Stored(pre, post, at, img) ==
  <<P("StoresValue", Sub(post.buf, at + 1, at + Len(img)) = img),
    P("AdvancesLen", post.len = at + Len(img)),
    P("KeepsEarlierBytes", Prefix(post.buf, pre.len) = Prefix(pre.buf, pre.len))>>

PutLike(c, pre, res, post, img) ==
  LET fits == pre.len + Len(img) <= c.cap IN
  <<P("ResultKind", res.k \in {"ok", "err"})>> \o
  (IF res.k = "ok" THEN <<P("OkOnlyInBounds", fits)>> \o Stored(pre, post, pre.len, img)
   ELSE <<P("FailsOnlyWhenFull", ~fits)>> \o Unchanged(pre, post))

GetLike(c, m, pre, op, res, post) ==
  LET k == Size(op.ty) has == pre.len >= k IN
  <<P("ResultKind", res.k \in {"ok", "err"})>> \o
  (IF res.k = "ok"
   THEN <<P("OkOnlyInBounds", has),
          P("GetDecodes", has /\ res.v = Dec(op.ord, Sub(pre.buf, pre.len - k + 1, pre.len), c.nle)),
          P("GetShrinksLen", post.len = pre.len - k),
          P("GetLeavesBytes", post.buf = pre.buf)>>
   ELSE <<P("FailsOnlyWhenShort", ~has)>> \o Unchanged(pre, post)) \o
  \* put followed by the get of the same type and byte order returns the value and restores len
  (IF m.last.k = "put" /\ m.last.ty = op.ty /\ m.last.ord = op.ord
   THEN <<P("RoundTrip", res.k = "ok" /\ res.v = m.last.v /\ post.len = m.last.len0)>>
   ELSE <<>>)

\* "aligned for T" is a statement about the address; an arena whose base is not aligned for T cannot serve T at all
PtrPreds(c, pre, res, post, a) ==
  \* (a zero-capacity handle has no memory behind it: its pointers are dangling by construction)
  <<P("PointerAligned", (c.bmod % a = 0 /\ c.cap > 0) => (res.poff % a = 0 /\ res.pmod = 0)),
    P("PointerInside", c.po + pre.len <= res.poff /\ res.poff <= c.po + c.cap)>>

AlignPreds(c, pre, op, res, post) ==
  <<P("ResultKind", res.k \in {"ok", "err"})>> \o
  (IF res.k = "ok"
   THEN IF op.s = 0 THEN Unchanged(pre, post)
        ELSE PtrPreds(c, pre, res, post, op.a) \o
             <<P("LenAtPointer", post.len = res.poff - c.po),
               P("KeepsEarlierBytes", Prefix(post.buf, pre.len) = Prefix(pre.buf, pre.len))>>
   ELSE <<P("FailsOnlyWhenFull", op.s > 0 /\ AlignUp(c.po + pre.len, op.a) > c.po + c.cap)>>
        \o Unchanged(pre, post))

PutAlignedPreds(c, pre, op, res, post) ==
  LET al == AlignUp(c.po + pre.len, op.a)
      fits == al + op.s <= c.po + c.cap IN
  <<P("ResultKind", res.k \in {"ok", "err"})>> \o
  (IF res.k = "ok"
   THEN IF op.s = 0 THEN Unchanged(pre, post)
        ELSE PtrPreds(c, pre, res, post, op.a) \o
             <<P("OkOnlyInBounds", res.poff + op.s <= c.po + c.cap)>> \o
             Stored(pre, post, res.poff - c.po, op.b)
   ELSE <<P("FailsOnlyWhenFull", op.s > 0 /\ ~fits)>> \o Unchanged(pre, post))

PutTPreds(c, pre, op, res, post) ==
  IF op.s = 0 THEN <<P("ResultKind", res.k = "ok")>> \o Unchanged(pre, post)
  ELSE PutLike(c, pre, res, post, op.b) \o
       (IF res.k = "ok" THEN <<P("PointerAtValue", res.poff = c.po + pre.len)>> ELSE <<>>)

SetLenPreds(c, pre, op, res, post) ==
  IF op.n > c.cap
  THEN <<P("SetLenBeyondCapacityRefused", res.k \in {"panic", "err"})>> \o Unchanged(pre, post)
  ELSE LET lo == MinOf(op.n, pre.len) hi == MaxOf(op.n, pre.len) IN
       <<P("ResultKind", res.k = "ok"),
         P("SetLenSetsLen", post.len = op.n),
         P("SetLenZeroFills", \A i \in (lo + 1)..hi : i <= Len(post.buf) /\ post.buf[i] = 0),
         P("KeepsEarlierBytes", Prefix(post.buf, lo) = Prefix(pre.buf, lo))>>

PutVarintPreds(c, pre, op, res, post) ==
  <<P("ResultKind", res.k \in {"ok", "err"})>> \o
  (IF res.k = "ok"
   THEN <<P("OkOnlyInBounds", res.n >= 1 /\ pre.len + res.n <= c.cap),
          P("AdvancesLen", post.len = pre.len + res.n),
          P("KeepsEarlierBytes", Prefix(post.buf, pre.len) = Prefix(pre.buf, pre.len))>>
   ELSE <<P("FailsOnlyWhenFull", pre.len + res.need > c.cap), P("FailLeavesLen", post.len = pre.len),
          P("KeepsEarlierBytes", Prefix(post.buf, pre.len) = Prefix(pre.buf, pre.len))>>)

GetVarintPreds(c, m, pre, op, res, post) ==
  <<P("ResultKind", res.k \in {"ok", "err"}),
    P("GetVarintReadOnly", post.len = pre.len /\ post.buf = pre.buf)>> \o
  (IF res.k = "ok" THEN <<P("OkOnlyInBounds", res.n >= 1 /\ res.n <= pre.len)>> ELSE <<>>) \o
  \* a LEB128 put on an empty buffer followed by the matching get returns the encoded length and the value
  (IF m.vhead.k = "putv" /\ m.vhead.ty = op.ty
   THEN <<P("VarintRoundTrip", res.k = "ok" /\ res.n = m.vhead.n /\ res.v = m.vhead.v)>>
   ELSE <<>>)

GetSlicePreds(c, pre, op, res, post) ==
  <<P("ResultKind", res.k \in {"ok", "err"}), P("GetVarintReadOnly", post.len = pre.len /\ post.buf = pre.buf)>> \o
  (IF res.k = "ok" THEN <<P("OkOnlyInBounds", op.n <= pre.len), P("GetDecodes", res.v = Prefix(pre.buf, op.n))>>
   ELSE <<P("FailsOnlyWhenShort", op.n > pre.len)>>)

Always(c, pre, post) ==
  <<P("LenWithinCapacity", post.len <= c.cap), P("OutsideUntouched", post.out = pre.out)>>

Preds(c, m, pre, op, res, post) ==
  IF res.k = "precond" THEN <<P("CallNotMade", post = pre)>>     \* documented precondition not met: no call
  ELSE IF res.k = "died" THEN <<P("ProcessDied", FALSE)>>
  ELSE IF res.k = "panic" /\ op.k # "setlen" THEN <<P("NoPanic", FALSE)>> \o Always(c, pre, post)
  ELSE Always(c, pre, post) \o
   (CASE op.k = "put" -> PutLike(c, pre, res, post, Enc(op.ord, op.v, c.nle))
      [] op.k = "slice" -> PutLike(c, pre, res, post, op.b)
      [] op.k = "get" -> GetLike(c, m, pre, op, res, post)
      [] op.k = "getslice" -> GetSlicePreds(c, pre, op, res, post)
      [] op.k = "setlen" -> SetLenPreds(c, pre, op, res, post)
      [] op.k = "align" -> AlignPreds(c, pre, op, res, post)
      [] op.k = "putt" -> PutTPreds(c, pre, op, res, post)
      [] op.k = "putal" -> PutAlignedPreds(c, pre, op, res, post)
      [] op.k = "putv" -> PutVarintPreds(c, pre, op, res, post)
      [] op.k = "getv" -> GetVarintPreds(c, m, pre, op, res, post)
      [] OTHER -> <<P("KnownCall", FALSE)>>)

\* what a call establishes for the next one
MonNext(m, pre, op, res, post) ==
  [last |-> IF op.k = "put" /\ res.k = "ok" THEN [k |-> "put", ty |-> op.ty, ord |-> op.ord, v |-> op.v, len0 |-> pre.len]
            ELSE NoLast,
   vhead |-> IF op.k = "putv" /\ res.k = "ok" /\ pre.len = 0
             THEN [k |-> "putv", ty |-> op.ty, v |-> op.v, n |-> res.n]
             ELSE IF op.k = "getv" THEN m.vhead ELSE NoHead]
=============================================================================
