------------------------------- MODULE MCSeq -------------------------------
(***************************************************************************)
(* Exhaustive exploration of ArenaSeq: every history over an op menu with  *)
(* at most MaxAllocs allocation calls (any number of the other calls).     *)
(* In every transition the property predicates of ArenaProps are evaluated *)
(* (Assert: a violated property stops TLC with the offending history);     *)
(* state invariants cover byte-level intactness and zero-on-return.        *)
(* With Emit = TRUE every explored transition prints the op sequence that  *)
(* leads to it ("DRV" lines): these are the drivers replayed on the code.  *)
(***************************************************************************)
EXTENDS ArenaSeq, Json, SequencesExt

CONSTANTS Cap, Reserved, Unify, Kind, Backend, MinSeg0, FixedRewind,
          MaxAllocs, MaxLive, MaxLen,
          ByteSizes,      \* sizes for alloc_bytes
          TypeSet,        \* subset of TypeMenu for alloc::<T>
          AlignedSet,     \* set of <<T, n>> for alloc_aligned_bytes::<T>(n)
          OwnedToo,       \* also the *_owned variants
          MinSegSet, IncSet, RewindSet, TruncSet, WithClear, WithLeak,
          WithReopen,     \* close + map_mut reopen of a file-backed arena as a call of the menu
          HistView,       \* one step of history in the fingerprint (see `tag`)
          WithFit,        \* state-dependent request sizes: all of the remaining fresh space, and exactly / one less than the
                          \* size of each segment on the list (where an extent that is off by a few bytes shows)
          WithClone,      \* a second arena value (Clone) of the same arena: made, asked, allocated through, dropped
          Prefix,         \* scripted history applied before the free exploration starts (part of every driver)
          Emit

VARIABLES st, hist,
          tag    \* what kind of handle the last call released (owned?, padding, slack): with HistView the successors of a
                 \* state are explored once per such kind, because the code paths that release an owned / padded / slack
                 \* handle differ although they lead to the same abstract state
vars == <<st, hist, tag>>
View == IF HistView THEN <<st, tag>> ELSE <<st>>

ApplyAll(s0, ops) ==
  LET F[i \in 0..Len(ops)] == IF i = 0 THEN s0 ELSE Step(F[i - 1], ops[i], FixedRewind).st IN F[Len(ops)]

Init == /\ st = ApplyAll(New(Kind, Backend, Unify, Reserved, Cap, MinSeg0), Prefix)
        /\ hist = Prefix
        /\ tag = <<>>
        /\ TLCSet(42, 0)

OwnedFlags == IF OwnedToo THEN {FALSE, TRUE} ELSE {FALSE}

AllocOps ==
  {[k |-> "ab", n |-> n, o |-> o] : n \in ByteSizes, o \in OwnedFlags}
  \cup {[k |-> "at", s |-> T.size, a |-> T.align, o |-> o] : T \in TypeSet, o \in OwnedFlags}
  \cup {[k |-> "aa", s |-> p[1].size, a |-> p[1].align, n |-> p[2], o |-> o] : p \in AlignedSet, o \in OwnedFlags}

\* rewind is only used where the caller contract can be met: no free segment above the target
RewindOk(s, op) ==
  LET t == RewindTarget(s, op.p, op.v, FixedRewind) IN \A i \in 1..Len(s.fl) : Seg(s.fl[i]).hi <= t

FitOps(s) ==
  (IF s.cap - s.cursor > 0 THEN {[k |-> "ab", n |-> s.cap - s.cursor, o |-> FALSE]} ELSE {})
  \* (a little more than the segment holds must be refused -- or served by a larger one)
  \cup UNION {{[k |-> "ab", n |-> s.fl[i][2] - d, o |-> FALSE] : d \in {d \in {-7, -1, 0, 1} : s.fl[i][2] - d > 0}} : i \in 1..Len(s.fl)}

Menu(s) ==
  (IF s.nextId <= MaxAllocs + Len(Prefix) /\ Cardinality(DOMAIN s.live) < MaxLive
   THEN AllocOps \cup (IF WithFit THEN FitOps(s) ELSE {}) ELSE {})
  \cup {[k |-> "drop", h |-> h] : h \in DOMAIN s.live}
  \cup {[k |-> "dealloc", h |-> h] : h \in {h \in DOMAIN s.live : ~s.live[h].det}}
  \cup {[k |-> "detach", h |-> h] : h \in {h \in DOMAIN s.live : ~s.live[h].det}}
  \cup (IF WithLeak THEN {[k |-> "leak", h |-> h] : h \in DOMAIN s.live} ELSE {})
  \* (also on an empty list: nothing to discard is a result too)
  \cup (IF Kind # "none" /\ (s.fl # <<>> \/ hist = <<>> \/ hist[Len(hist)].k # "discard") THEN {[k |-> "discard"]} ELSE {})
  \cup {[k |-> "setmin", v |-> v] : v \in MinSegSet \ {s.minseg}}
  \cup {[k |-> "incdisc", v |-> v] : v \in {v \in IncSet : s.disc + v <= 2 * Cap}}
  \cup {op \in {[k |-> "rewind", p |-> q[1], v |-> q[2]] : q \in RewindSet} : RewindOk(s, op)}
  \* state-dependent boundary positions (only when rewinding is part of the menu)
  \cup (IF RewindSet = {} THEN {}
        ELSE {op \in {[k |-> "rewind", p |-> "cur", v |-> d] :
                        d \in {-s.cursor, -s.cursor - 1, -s.cursor + 1, s.doff - s.cursor, s.cap - s.cursor}}
                   \cup {[k |-> "rewind", p |-> "end", v |-> s.cap - s.doff], [k |-> "start", p |-> "start", v |-> s.doff]}
               : op.k = "rewind" /\ RewindOk(s, op)})
  \* (also with the cursor at the data offset: discarded bytes, a free list or stale bytes may be left behind there)
  \cup (IF WithClear /\ (hist = <<>> \/ hist[Len(hist)].k # "clear") THEN {[k |-> "clear"]} ELSE {})
  \cup (IF WithReopen /\ Backend = "file" /\ Len(hist) > 0 /\ hist[Len(hist)].k # "reopen"
        THEN {[k |-> "reopen", variant |-> "map_mut", cap |-> 0, flush |-> FALSE, create |-> FALSE]} ELSE {})
  \* (a truncate that leaves the capacity as it is included)
  \cup {[k |-> "truncate", v |-> v] : v \in TruncSet}
  \cup (IF ~WithClone THEN {}
        ELSE IF Len(s.clones) = 0 THEN {[k |-> "mkclone"]}
        ELSE {[k |-> "cobs"], [k |-> "dropclone"]}
             \* through the other value: only calls that cannot write through a stale base pointer are driven on the
             \* real code (the value is not stale, or the cached capacity refuses the request and the list is empty)
             \cup {[k |-> "ab", n |-> n, o |-> FALSE, via |-> "clone"] :
                     n \in {n \in ByteSizes : ~s.clones[Len(s.clones)].stale
                                               \/ (s.fl = <<>> /\ n > 0 /\ s.cursor + n > s.clones[Len(s.clones)].cap)}})

PreOf(s) == [doff |-> s.doff, obs |-> Obs(s), live |-> s.live, leaked |-> s.leaked, first |-> s.first,
             truncated |-> s.truncated, rewound |-> s.rewound, nclones |-> Len(s.clones)]
CfgRec == [kind |-> Kind, maxalign |-> 8, reserved |-> Reserved]

\* the deallocs a release is expected to issue in the model: exactly what DropHandle does
ModelDeallocs(s, op) ==
  LET hr == s.live[op.h] IN
  IF op.k = "drop" /\ hr.det THEN <<>>
  ELSE IF hr.ms = 0 THEN <<>> ELSE <<[off |-> hr.mo, size |-> hr.ms]>>

LiveIntactM(s) == \A h \in DOMAIN s.live : RangeAll(s.mem, s.live[h].po, s.live[h].po + s.live[h].ps, s.live[h].pat)
LeakedIntactM(s) == \A k \in s.leaked : RangeAll(s.mem, k.po, k.po + k.ps, k.pat)
ReservedOkM(s) == RangeAll(s.mem, 0, s.reserved, ReservedPattern)

StepPreds(s, op, r) ==
  LET pre == PreOf(s) s2 == r.st o == Obs(s2) c == CfgRec IN
  (IF IsAlloc(op) THEN
      IF r.res.k = "ok" THEN AllocOkPreds(c, pre, op, r.res, o, [zeroOnReturn |-> r.zeroOk])
      ELSE AllocErrPreds(c, pre, op, r.res, o)
   ELSE IF op.k \in {"drop", "dealloc"} THEN ReleasePreds(c, pre, op, s.live[op.h], ModelDeallocs(s, op), o)
   ELSE OtherPreds(c, pre, op, r.res, o,
          [memSame |-> s2.mem = s.mem,
           dataZero |-> RangeAll(s2.mem, s2.doff, s2.cap, 0),
           bytesKept |-> \A i \in 0..(s.cursor - 1) : s2.mem[i] = s.mem[i]]))
  \o StatePreds(c, pre, PreOf(s2), op, o,
          [liveIntact |-> LiveIntactM(s2), leakedIntact |-> LeakedIntactM(s2), reservedOk |-> ReservedOkM(s2)])

Failing(P) == {<<P[i][1], P[i][2]>> : i \in {i \in 1..Len(P) : ~P[i][3]}}

\* a property predicate that is false in the model: print the history (at most 200 per worker) and go on exploring;
\* the tooling replays every such history on the real code before anything is reported
ReportModel(P, h) ==
  IF Failing(P) = {} THEN TRUE
  ELSE IF TLCGet(42) < 200
       THEN PrintT(ToJson([modelviol |-> SetToSeq(Failing(P)), history |-> h])) /\ TLCSet(42, TLCGet(42) + 1)
       ELSE TRUE

Next ==
  /\ Len(hist) < Len(Prefix) + MaxLen
  /\ \E op \in Menu(st) :
       LET r == Step(st, op, FixedRewind)
           P == StepPreds(st, op, r) IN
       /\ ReportModel(P, Append(hist, op))
       /\ st' = r.st
       /\ hist' = Append(hist, op)
       /\ tag' = IF op.k \in {"drop", "dealloc", "leak"} /\ op.h \in DOMAIN st.live
                 THEN LET hr == st.live[op.h] IN <<op.k, hr.owned, hr.det, hr.po - hr.mo, hr.ms - hr.ps>>
                 ELSE <<>>
       /\ (Emit => PrintT(ToJson([drv |-> hist'])))

Spec == Init /\ [][Next]_vars

\* state invariants (also covered by StepPreds; kept as invariants so TLC reports them with a trace)
LiveDisjoint == \A a, b \in DOMAIN st.live : a # b => Disjoint(Acc(st.live[a]), Acc(st.live[b]))
LiveInBounds == \A a \in DOMAIN st.live : (st.live[a].ps = 0) \/ st.rewound \/ (st.doff <= st.live[a].po /\ Acc(st.live[a]).hi <= st.cursor)
LiveIntactInv == LiveIntactM(st)
RefsInv == st.refs = 1 + Len(st.clones) + Cardinality({h \in DOMAIN st.live : st.live[h].embeds = 1})
TypeOK == st.cursor \in st.doff..st.cap /\ st.disc >= 0
=============================================================================
