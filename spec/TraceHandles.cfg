SPECIFICATION Spec
POSTCONDITION Post
CHECK_DEADLOCK FALSE
