------------------------------ MODULE MCLocks ------------------------------
(***************************************************************************)
(* Every history of opens, clones, drops and lock calls over three         *)
(* sessions of one file (at most MaxVals arena values each).  The kernel's *)
(* rule is an invariant; the monitor predicates a user relies on are       *)
(* evaluated on every transition; with Emit every transition prints the    *)
(* history that reaches it: the drivers replayed on the real code.         *)
(***************************************************************************)
EXTENDS Locks, TLC, Json

CONSTANTS MaxVals, Emit, K1, K2, K3
KindsCfg == (1 :> K1) @@ (2 :> K2) @@ (3 :> K3)

VARIABLES st, sure, maybe, hist
vars == <<st, sure, maybe, hist>>
View == <<st, sure, maybe>>

Init == /\ st = InitState(KindsCfg)
        /\ sure = [s \in Sessions |-> "none"]
        /\ maybe = [s \in Sessions |-> FALSE]
        /\ hist = <<>>

Menu(s0) ==
  {[k |-> "open", s |-> s] : s \in {s \in Sessions : s0.vals[s] = 0}}
  \cup {[k |-> "clone", s |-> s] : s \in {s \in Sessions : s0.vals[s] \in 1..(MaxVals - 1)}}
  \cup {[k |-> "dropval", s |-> s] : s \in {s \in Sessions : s0.vals[s] > 0}}
  \cup {[k |-> k, s |-> s] : k \in {"try_ex", "try_sh", "unlock", "lock_ex", "lock_sh"}, s \in {s \in Sessions : s0.vals[s] > 0}}

Next ==
  \E op \in Menu(st) :
    LET r == Step(st, op) lastval == op.k = "dropval" /\ st.vals[op.s] = 1 IN
    /\ ~r.blocks
    /\ st' = r.st
    /\ sure' = SureAfter(sure, op, r.res, lastval, IsFile(st, op.s))
    /\ maybe' = MaybeAfter(maybe, op, r.res, lastval, IsFile(st, op.s))
    /\ hist' = Append(hist, op)
    /\ Assert(GrantRespectsHolders(sure, op, r.res, IsFile(st, op.s)), <<"GrantRespectsHolders", hist'>>)
    /\ Assert(SharedRespectsExclusive(sure, op, r.res, IsFile(st, op.s)), <<"SharedRespectsExclusive", hist'>>)
    /\ Assert(RefusedOnlyWhenHeld(maybe, op, r.res, IsFile(st, op.s)), <<"RefusedOnlyWhenHeld", hist'>>)
    /\ (Emit => PrintT(ToJson([drv |-> hist'])))

Spec == Init /\ [][Next]_vars

Mutex == MutualExclusion(st)
OpenHold == OnlyOpenSessionsHold(st)
FilesHold == OnlyFilesHold(st)
\* the monitor never claims more than the kernel holds
SureIsHeld == \A s \in Sessions : sure[s] # "none" => st.held[s] = sure[s]
HeldIsMaybe == \A s \in Sessions : st.held[s] # "none" => maybe[s]
=============================================================================
