---------------------------- MODULE TraceSeqImpl ----------------------------
(***************************************************************************)
(* Implementation-level trace specification: every logged call of a real   *)
(* sequential execution must be the step ArenaSeq takes for the same call, *)
(* with the same result, the same observation and compatible memory.       *)
(* A mismatch prints <<"DRIFT", line, arena, what>> (the model no longer   *)
(* speaks for this code); the arena is then left alone until the next      *)
(* reset so that the remaining arenas / drivers are still compared.        *)
(* DRIFT is never a property violation (see TraceSeqProp for verdicts).    *)
(***************************************************************************)
EXTENDS ArenaSeq, Json, IOUtils

CONSTANT FixedRewind

Rec == ndJsonDeserialize(IOEnv.TRACE)

VARIABLES l, M
vars == <<l, M>>

Drift(a, what) == PrintT(<<"DRIFT", l, a, what>>)
DriftDetail(a, what, detail) == PrintT(<<"DRIFT", l, a, what>>) /\ PrintT(<<"DRIFT-DETAIL", l, a, ToJson(detail)>>)
Off == [on |-> FALSE, ro |-> FALSE]
\* a read-only session: not modelled step by step, but the documented panics of the unsafe mutable accessors are
OffRo == [on |-> FALSE, ro |-> TRUE]
RoVariant(op) == op.variant \in {"map", "map_copy_ro"}

Applies(op, i) == ~Has(op, "only") \/ \E k \in 1..Len(op.only) : op.only[k] = i

InitModel(c, d) ==
  IF d.ok
  THEN [on |-> TRUE, ro |-> FALSE,
        st |-> New(IF Has(c, "kind") THEN c.kind ELSE "opt", d.backend, Has(c, "unify") /\ c.unify,
                   IF Has(c, "reserved") THEN c.reserved ELSE 0, c.cap, c.minseg)]
  ELSE Off

MemCompatible(m, cap, runs) ==
  /\ Len(runs) = 0 \/ runs[Len(runs)][1] + runs[Len(runs)][2] = cap
  /\ cap <= Cardinality(DOMAIN m)
  /\ \A k \in 1..Len(runs) :
       \A i \in runs[k][1]..(runs[k][1] + runs[k][2] - 1) : m[i] = UNK \/ m[i] = runs[k][3]

ObsEq(o, x) == /\ o.alloc = x.alloc /\ o.disc = x.disc /\ o.rem = x.rem /\ o.cap = x.cap
               /\ o.minseg = x.minseg /\ o.refs = x.refs /\ o.fl = x.fl /\ ~x.fltrunc /\ o.doff = x.doff
ResEq(r, x) == /\ r.k = x.k
               /\ (r.k = "ok" /\ Has(r, "mo")) => (r.mo = x.mo /\ r.ms = x.ms /\ r.po = x.po /\ r.ps = x.ps /\ r.h = x.h)
               /\ (Has(r, "v")) => (Has(x, "v") /\ r.v = x.v)
               /\ (Has(r, "rem")) => (Has(x, "rem") /\ r.rem = x.rem /\ r.cap = x.cap /\ r.alloc = x.alloc)

\* what differs, as a short string (first difference wins)
Diff(r, st2, x) ==
  IF ~ResEq(r.res, x.res) THEN "result"
  ELSE IF ~ObsEq(Obs(st2), x.obs) THEN "observation"
  ELSE IF ~MemCompatible(st2.mem, st2.cap, x.mem) THEN "memory"
  ELSE "none"

NextModel(a, op, x, m) ==
  IF ~m.on THEN
       (IF x.res.k \in {"dead", "noarena", "panic"} THEN Off
        ELSE IF op.k = "reopen" THEN (IF x.res.k = "ok" /\ RoVariant(op) THEN OffRo ELSE Off)
        \* get_bytes_mut / get_pointer_mut / get_aligned_pointer_mut: "If the allocator is read-only, then this method will panic"
        ELSE IF m.ro /\ op.k = "rawmut" /\ x.res.k # "refused"
             THEN (IF Drift(a, "mutable-accessor-did-not-panic-on-read-only") THEN m ELSE m)
        ELSE m)
  ELSE IF x.res.k \in {"skip", "notapplied"} THEN m
  ELSE IF x.res.k \in {"dead", "noarena"} THEN Off
  ELSE IF x.res.k = "panic" THEN (IF Drift(a, "panic") THEN Off ELSE Off)
  ELSE IF x.res.k = "na" THEN
       \* sync::Arena has no truncate: the harness only gave up the handles
       [m EXCEPT !.st = [m.st EXCEPT !.live = [z \in {} |-> 0], !.refs = 1 + Len(m.st.clones),
                                     !.leaked = m.st.leaked \cup {AsLeak(m.st.live[h]) : h \in DOMAIN m.st.live}]]
  \* the implementation-level model covers shared writable sessions; private / read-only sessions are judged at the
  \* property level only (TraceSeqProp)
  ELSE IF op.k = "reopen" /\ (op.variant # "map_mut" \/ x.res.k # "ok") THEN (IF x.res.k = "ok" /\ RoVariant(op) THEN OffRo ELSE Off)
  ELSE IF op.k = "rawmut" THEN (IF x.res.k # "ok" /\ Drift(a, "mutable-accessor-refused-on-writable") THEN m ELSE m)
  ELSE IF ~Enabled(m.st, op) THEN (IF Drift(a, "handle-unknown-to-model") THEN Off ELSE Off)
  ELSE
  LET r == Step(m.st, op, FixedRewind)
      d == Diff(r, r.st, x) IN
  IF d = "none" THEN [m EXCEPT !.st = r.st]
  ELSE IF DriftDetail(a, d, [op |-> op, model_res |-> r.res, model_obs |-> Obs(r.st), code_res |-> x.res, code_obs |-> x.obs]) THEN Off ELSE Off

Init == l = 1 /\ M = <<>>

StepReset ==
  LET e == Rec[l] IN
  /\ e.ev = "reset"
  /\ M' = [a \in 1..Len(e.arenas) |-> InitModel(e.cfg, e.arenas[a])]
  /\ \A a \in 1..Len(e.arenas) :
        (e.arenas[a].ok /\ ~(ObsEq(Obs(M'[a].st), e.arenas[a].obs) /\ MemCompatible(M'[a].st.mem, M'[a].st.cap, e.arenas[a].mem)))
           => Drift(a, "initial-state")
  /\ l' = l + 1

StepOp ==
  LET e == Rec[l] IN
  /\ e.ev = "op"
  /\ M' = [a \in 1..Len(e.arenas) |-> IF Applies(e.op, a) THEN NextModel(a, e.op, e.arenas[a], M[a]) ELSE M[a]]
  /\ l' = l + 1

StepSkip == /\ Rec[l].ev \notin {"reset", "op"} /\ l' = l + 1 /\ UNCHANGED M

Next == l <= Len(Rec) /\ (StepReset \/ StepOp \/ StepSkip)
Spec == Init /\ [][Next]_vars

Consumed == TLCGet("stats").diameter - 1 = Len(Rec)
Post == IF Consumed THEN PrintT(<<"TRACE-CONSUMED", Len(Rec)>>)
        ELSE PrintT(<<"TRACE-STUCK", TLCGet("stats").diameter, Len(Rec)>>) /\ FALSE
=============================================================================
