------------------------------ MODULE ArenaSync ------------------------------
(***************************************************************************)
(* The lock-free algorithm of sync.rs, one step per ATOMIC ACCESS.         *)
(*                                                                         *)
(* Structure (what makes the spec bindable to the code):                   *)
(*   Access(p, l)   the access a thread at label p with locals l performs  *)
(*                  next: [kind, at, exp, new, so, fo] -- kind/location/   *)
(*                  operands/memory orderings exactly as sync.rs passes    *)
(*                  them to the atomic (labels carry the sync.rs line);    *)
(*   Cont(p, l, r)  all local computation up to the next access, given the *)
(*                  value read r.old and (for CAS) r.ok: [pc, loc].        *)
(* The controlled scheduler of the harness parks a thread before each      *)
(* access; TraceSyncImpl matches every recorded access against Access and  *)
(* advances with Cont, so a schedule of TLC is a schedule of the code.     *)
(*                                                                         *)
(* Memory is byte-exact: node words and user bytes are the same memory     *)
(* (a node word is decoded from 8 bytes, little endian: next = low u32,    *)
(* size = high u32), so a traverser holding a stale node address reads     *)
(* whatever a user wrote there.  u32::MAX is NIL = -1 (TLC ints are 32     *)
(* bit); any other u32 >= 2^30 (top byte >= 64) is BIG = -3, as in the trace.   *)
(* Non-atomic steps: Meta::clear ("zero"), user fill / word write / verify.*)
(***************************************************************************)
EXTENDS Common, TLC

CONSTANTS FixedList,    \* FALSE: the list protocol as found (abandons a marked node when the unlink CAS fails; find_position
                        \* re-reads only a removed `next`): the two C07 findings.  TRUE: the repaired protocol (the marker
                        \* restores the node and retries; a removed `next` restarts the search from the sentinel).
          Threads,      \* thread ids 0..n-1 (integers, as in the harness)
          Cap, DataOff, Kind, MinSeg0, MaxRetries,
          Prog,         \* [Threads -> Seq(op)]
          Setup         \* [cursor, disc, sent, mem, handles] : the quiescent state the threads start from

NIL == -1
BIG == -3
SENT == -2
CUR == -10
DISC == -11
MSEG == -12
REFS == -14
ZERO == -20
USER == -21
UNMAP == -22

W(s, n) == [size |-> s, next |-> n]
WS == W(NIL, NIL)
W0 == W(0, 0)
M0 == [mo |-> 0, ms |-> 0, po |-> 0, ps |-> 0]

\* ---------------------------------------------------------------- byte codec
U32At(m, i) ==
  IF m[i] = 255 /\ m[i + 1] = 255 /\ m[i + 2] = 255 /\ m[i + 3] = 255 THEN NIL
  ELSE IF m[i + 3] >= 64 THEN BIG
  ELSE m[i] + 256 * m[i + 1] + 65536 * m[i + 2] + 16777216 * m[i + 3]
ByteOf(v, k) == IF v = NIL THEN 255 ELSE IF v = BIG THEN 64 ELSE (v \div (IF k = 0 THEN 1 ELSE IF k = 1 THEN 256 ELSE IF k = 2 THEN 65536 ELSE 16777216)) % 256
WordAt(m, a) == W(U32At(m, a + 4), U32At(m, a))
PutWord(m, a, w) == [i \in DOMAIN m |-> IF i >= a /\ i < a + 4 THEN ByteOf(w.next, i - a)
                                        ELSE IF i >= a + 4 /\ i < a + 8 THEN ByteOf(w.size, i - a - 4) ELSE m[i]]
SetBytes(m, lo, hi, v) == [i \in DOMAIN m |-> IF i >= lo /\ i < hi THEN v ELSE m[i]]
NodeOk(a) == a >= 0 /\ a + 8 <= Cap /\ a % 8 = 0

\* ---------------------------------------------------------------- locals
L0 == [opk |-> "none", n |-> 0, ts |-> 0, ta |-> 1, ex |-> 0, al |-> 0, i |-> 0,
       sw |-> W0, hw |-> W0, head |-> 0, msize |-> 0, dend |-> 0, rem |-> 0,
       ioff |-> 0, isize |-> 0, node |-> 0, dsize |-> 0, fcur |-> 0, fcw |-> W0,
       pcur |-> 0, pw |-> W0, ncur |-> 0, nw |-> W0,
       ret |-> "none", res |-> "none", meta |-> M0, acc |-> 0, h |-> 0, v |-> 0, at |-> 0]

VARIABLES cursor, disc, minseg, sent, mem, pc, loc, ip, hs, live, refs, freed, touchedAfterFree
vars == <<cursor, disc, minseg, sent, mem, pc, loc, ip, hs, live, refs, freed, touchedAfterFree>>
\* refs  : the reference count of the backing Memory (Arc-style, sync.rs:181 / 1671 / 1695)
\* freed : number of times the backing memory has been unmounted
\* hs   : handle id |-> [mo, ms, po, ps, pat (0 = not filled), t]   (every handle ever returned and not yet released)
\* live : set of handle ids currently live (returned, release call not yet entered)

Hdr(off) == (Align8(off) - off) + 8
\* the comparator closures; a garbage size (u32::MAX or BIG) is larger than any request
Chk(val, s) == IF s = NIL \/ s = BIG THEN Kind # "opt" ELSE IF Kind = "opt" THEN val >= s ELSE val <= s

\* ---------------------------------------------------------------- accesses
Acc0(k, at, e, n, so, fo) == [kind |-> k, at |-> at, exp |-> e, new |-> n, so |-> so, fo |-> fo]
Load(at) == Acc0("load", at, 0, 0, "acq", "acq")
CasW(at, e, n) == Acc0("casw", at, e, n, "sc", "acq")
Cas(at, e, n, so, fo) == Acc0("cas", at, e, n, so, fo)
Store(at, v) == Acc0("store", at, v, 0, "rel", "rel")
Fadd(at, k) == Acc0("fadd", at, k, 0, "rel", "rel")
Fsub(at, k) == Acc0("fsub", at, k, 0, "rel", "rel")

Goto(l, p) == [pc |-> p, loc |-> l]
Done(l, r) == [pc |-> "done", loc |-> [l EXCEPT !.res = r]]
Oob(l) == [pc |-> "oob", loc |-> l]

\* the slow path asks the list for n bytes; fast-path arithmetic per call kind
WantOf(l, cur) == IF l.opk = "ab" THEN cur + l.n ELSE Align(cur, l.ta) + l.ts + l.ex

Access(p, l) == CASE
  \* ---- fast path: alloc_bytes_in 797/805, alloc_aligned_bytes_in 944/954, alloc_in 1096/1105
     p = "al.load_cur"      -> Load(CUR)
  [] p = "al.cas_cur"       -> CasW(CUR, l.al, WantOf(l, l.al))
  \* ---- errors report remaining(): allocated() load at 369
  [] p = "err.load_cur"     -> Load(CUR)
  \* ---- optimistic slow path 1345-1466
  [] p = "opt.load_sent"    -> Load(SENT)                                           \* 1354
  [] p = "opt.load_head"    -> Load(l.head)                                         \* 1374
  [] p = "opt.cas_mark"     -> Cas(l.head, l.hw, W(0, l.hw.next), "acqrel", "rlx")  \* 1405
  [] p = "opt.cas_unlink"   -> Cas(SENT, l.sw, W(l.sw.size, l.hw.next), "acqrel", "rlx")  \* 1420
  [] p = "opt.restore"      -> Store(l.head, l.hw)                                  \* repaired protocol only
  \* ---- pessimistic slow path 1243-1342 with find_prev_and_next 607-664
  [] p = "fpn.load_sent"    -> Load(SENT)                                           \* 614
  [] p = "fpn.load_cur"     -> Load(l.pw.next)                                      \* 636
  [] p = "fpn.load_next"    -> Load(l.pw.next)                                      \* 647
  [] p = "pes.cas_mark"     -> Cas(l.ncur, l.nw, W(0, l.nw.next), "acqrel", "rlx")  \* 1276
  [] p = "pes.cas_unlink"   -> Cas(l.pcur, l.pw, W(l.pw.size, l.nw.next), "acqrel", "rlx")  \* 1296
  [] p = "pes.restore"      -> Store(l.ncur, l.nw)                                  \* repaired protocol only
  \* ---- validate_segment 1566 / try_new_segment 1588
  [] p = "val.load_minseg"  -> Load(MSEG)
  [] p = "ins.load_minseg"  -> Load(MSEG)
  [] p = "ins.fadd_small"   -> Fadd(DISC, l.isize)                                  \* 1583 / 1589
  \* ---- find_position 551-604
  [] p = "fp.load_sent"     -> Load(SENT)                                           \* 554
  [] p = "fp.load_cur"      -> Load(l.fcw.next)                                     \* 577
  [] p = "fp.load_next"     -> Load(l.fcw.next)                                     \* 588
  \* ---- optimistic_dealloc / pessimistic_dealloc 666-786
  [] p = "ins.store_node"   -> Store(l.node, W(l.dsize, l.fcw.next))                \* 134 via 694/755
  [] p = "ins.cas_link"     -> Cas(l.fcur, l.fcw, W(l.fcw.size, l.node), "acqrel", "rlx")  \* 696 / 757
  [] p = "ins.fadd_hdr"     -> Fadd(DISC, 8)                                        \* 710 / 771
  \* ---- dealloc 396-416
  [] p = "de.cas_cur"       -> Cas(CUR, l.ioff + l.isize, l.ioff, "sc", "rlx")      \* 400
  [] p = "de.fadd_disc"     -> Fadd(DISC, l.isize)                                  \* 410
  \* ---- discard_freelist_in 1468-1549
  [] p = "dis.load_sent"    -> Load(SENT)                                           \* 1473
  [] p = "dis.load_head"    -> Load(l.head)                                         \* 1490
  [] p = "dis.cas_mark"     -> Cas(l.head, l.hw, W(0, l.hw.next), "acqrel", "rlx")  \* 1511
  [] p = "dis.cas_unlink"   -> Cas(SENT, l.sw, W(l.sw.size, l.hw.next), "acqrel", "rlx")  \* 1526
  [] p = "dis.restore"      -> Store(l.head, l.hw)                                  \* repaired protocol only
  [] p = "dis.fadd"         -> Fadd(DISC, l.hw.size)                                \* 1534
  \* ---- set_minimum_segment_size 462-469 / increase_discarded 442-449: one access each, racing with every load above
  [] p = "sm.store"         -> Store(MSEG, l.n)
  [] p = "id.fadd"          -> Fadd(DISC, l.n)
  \* ---- Clone 181 / Drop 1671, 1695 / Memory::unmount
  [] p = "rc.fadd"          -> Fadd(REFS, 1)
  [] p = "rc.fsub"          -> Fsub(REFS, 1)
  [] p = "rc.load"          -> Load(REFS)
  [] p = "rc.unmount"       -> Acc0("unmount", UNMAP, 0, Cap, "na", "na")
  \* ---- non-atomic steps
  [] p = "zero"             -> Acc0("zero", ZERO, l.meta.po, l.meta.ps, "na", "na")   \* Meta::clear, lib.rs:881
  [] p = "user.fill"        -> Acc0("fill", USER, l.h, 0, "na", "na")
  [] p = "user.verify"      -> Acc0("verify", USER, l.h, 0, "na", "na")
  [] p = "user.write"       -> Acc0("write", USER, l.h, l.v, "na", "na")

\* ---------------------------------------------------------------- continuations
\* entering the slow path (i-th attempt) by free-list kind
EnterSlow(l) ==
  IF Kind = "none" THEN Goto(l, "err.load_cur")
  ELSE IF Kind = "opt" THEN Goto(l, "opt.load_sent")
  ELSE Goto(l, "fpn.load_sent")

\* the slow path returned Err: retry loop of alloc_*_in (837, 845, 992, 1005, 1146, 1157)
\* (as found the test was i = max_retries - 1 in u8: a budget of 0 underflowed -- panic / 255 retries; repaired in 246b4e4)
SlowErr(l) == IF l.i + 1 >= MaxRetries THEN Done(l, "err") ELSE EnterSlow([l EXCEPT !.i = l.i + 1])

\* Meta post-processing after a successful slow path, per call kind (align_to / align_bytes_to, lib.rs:889-900)
FinalMeta(l) ==
  LET m == l.meta IN
  IF l.opk = "ab" THEN m
  ELSE IF l.opk = "at" THEN [mo |-> m.mo, ms |-> m.ms, po |-> Align(m.po, l.ta), ps |-> l.ts]
  ELSE LET po2 == Align(m.po, l.ta) IN [mo |-> m.mo, ms |-> m.ms, po |-> po2, ps |-> m.po + m.ps - po2]

\* list_insert(off, size): try_new_segment then the insert loop; returns to l.ret
EnterInsert(l, off, size, r) ==
  LET l1 == [l EXCEPT !.ioff = off, !.isize = size, !.ret = r] IN
  IF off = 0 \/ size = 0 THEN Goto(l1, r)
  ELSE IF Hdr(off) >= size THEN Goto(l1, "ins.fadd_small")
  ELSE Goto(l1, "ins.load_minseg")
Return(l) ==
  IF l.ret = "done" THEN Done(l, "released")
  ELSE Goto(l, l.ret)

\* a node address computed from memory must be a valid node slot, else the real code reads out of bounds
LoadNode(l, a, p) == IF NodeOk(a) THEN Goto(l, p) ELSE Oob(l)

\* find_position loop body: decide on (fcur, fcw) without a further access
FpLoop(l) ==
  IF l.fcw = WS THEN Goto(l, "ins.after_find")
  ELSE IF l.fcw.size = 0 /\ l.fcw.next = NIL THEN Goto(l, "ins.after_find")
  ELSE IF l.fcw.size = 0 THEN LoadNode(l, l.fcw.next, "fp.load_cur")
  ELSE IF l.fcw.next = NIL THEN Goto(l, "ins.after_find")
  ELSE LoadNode(l, l.fcw.next, "fp.load_next")
AfterFind(l) ==
  IF l.fcw.size = 0 THEN Goto(l, "fp.load_sent")
  ELSE IF l.node = l.fcw.next THEN Goto(l, "fp.load_sent")
  ELSE Goto(l, "ins.store_node")
Resolve(c) == IF c.pc = "ins.after_find" THEN AfterFind(c.loc) ELSE c

\* find_prev_and_next loop body on (pcur, pw)
FpnLoop(l) ==
  IF l.pw = WS THEN Goto(l, "pes.none")
  ELSE IF l.pw.size = 0 /\ l.pw.next = NIL THEN Goto(l, "pes.none")
  ELSE IF l.pw.size = 0 THEN LoadNode(l, l.pw.next, "fpn.load_cur")
  ELSE IF l.pw.next = NIL THEN Goto(l, "pes.none")
  ELSE LoadNode(l, l.pw.next, "fpn.load_next")
ResolveP(c) == IF c.pc = "pes.none" THEN Goto(c.loc, "err.load_cur") ELSE c

\* after a successful unlink: validate_segment(dend, rem) (1553) then remainder, then Meta + clear
AfterPop(l, nodeOff, nodeSize) ==
  LET dend == nodeOff + 8 + l.n
      rem == nodeSize - l.n
      l2 == [l EXCEPT !.msize = nodeSize, !.dend = dend, !.rem = rem,
                      !.meta = [mo |-> nodeOff, ms |-> nodeSize, po |-> nodeOff + 8, ps |-> l.n]] IN
  IF dend # 0 /\ rem # 0 /\ Hdr(dend) < rem THEN Goto(l2, "val.load_minseg") ELSE Goto(l2, "zero")

Cont(p, l, r) == CASE
     p = "al.load_cur" ->
        IF WantOf(l, r.old) <= Cap THEN Goto([l EXCEPT !.al = r.old], "al.cas_cur")
        ELSE EnterSlow([l EXCEPT !.i = 0])
  [] p = "al.cas_cur" ->
        IF r.ok THEN
           LET cur == l.al want == WantOf(l, cur)
               meta == IF l.opk = "ab" THEN [mo |-> cur, ms |-> l.n, po |-> cur, ps |-> l.n]
                       ELSE IF l.opk = "at" THEN [mo |-> cur, ms |-> want - cur, po |-> Align(cur, l.ta), ps |-> l.ts]
                       ELSE [mo |-> cur, ms |-> want - cur, po |-> Align(cur, l.ta), ps |-> want - Align(cur, l.ta)]
               l2 == [l EXCEPT !.meta = meta, !.ret = "fast"] IN
           \* alloc_aligned_bytes does not clear on the fast path (sync.rs:960-969)
           IF l.opk = "aa" THEN Done(l2, "ok") ELSE Goto(l2, "zero")
        ELSE IF WantOf(l, r.old) <= Cap THEN Goto([l EXCEPT !.al = r.old], "al.cas_cur")
        ELSE EnterSlow([l EXCEPT !.i = 0])
  [] p = "err.load_cur" -> (IF Kind = "none" THEN Done(l, "err") ELSE SlowErr(l))
  \* ---- optimistic
  [] p = "opt.load_sent" ->
        IF r.old = WS THEN Goto(l, "err.load_cur")
        ELSE IF r.old.next = 0 THEN Goto(l, p)
        ELSE LoadNode([l EXCEPT !.sw = r.old, !.head = r.old.next], r.old.next, "opt.load_head")
  [] p = "opt.load_head" ->
        IF r.old.size = 0 THEN Goto(l, "opt.load_sent")
        ELSE IF r.old.size = NIL \/ r.old.size = BIG THEN Goto([l EXCEPT !.hw = r.old], "opt.cas_mark")
        ELSE IF l.n > r.old.size THEN SlowErr(l)
        ELSE Goto([l EXCEPT !.hw = r.old], "opt.cas_mark")
  [] p = "opt.cas_mark" -> (IF r.ok THEN Goto(l, "opt.cas_unlink") ELSE Goto(l, "opt.load_sent"))
  [] p = "opt.cas_unlink" ->
        IF r.ok THEN (IF l.hw.size = NIL \/ l.hw.size = BIG THEN Oob(l) ELSE AfterPop(l, l.head, l.hw.size))
        ELSE IF FixedList THEN Goto(l, "opt.restore")
        ELSE Goto(l, "opt.load_sent")                 \* abandons the node it has just marked (C07 finding)
  [] p = "opt.restore" -> Goto(l, "opt.load_sent")
  \* ---- pessimistic
  [] p = "fpn.load_sent" -> ResolveP(FpnLoop([l EXCEPT !.pcur = SENT, !.pw = r.old]))
  [] p = "fpn.load_cur"  -> ResolveP(FpnLoop([l EXCEPT !.pcur = l.pw.next, !.pw = r.old]))
  [] p = "fpn.load_next" ->
        IF r.old.size # NIL /\ r.old.size # BIG /\ ~(l.n <= r.old.size)
        THEN ResolveP(FpnLoop([l EXCEPT !.pcur = l.pw.next, !.pw = r.old]))
        ELSE \* check passed (val <= next size); a REMOVED next cannot pass since n > 0
             LET l2 == [l EXCEPT !.ncur = l.pw.next, !.nw = r.old] IN
             IF l.pw.size = 0 THEN Goto(l2, "fpn.load_sent")
             ELSE Goto(l2, "pes.cas_mark")
  [] p = "pes.cas_mark" -> (IF r.ok THEN Goto(l, "pes.cas_unlink") ELSE Goto(l, "fpn.load_sent"))
  [] p = "pes.cas_unlink" ->
        IF r.ok THEN (IF l.nw.size = NIL \/ l.nw.size = BIG THEN Oob(l) ELSE AfterPop(l, l.ncur, l.nw.size))
        ELSE IF FixedList THEN Goto(l, "pes.restore")
        ELSE Goto(l, "fpn.load_sent")                 \* abandons the node it has just marked (C07 finding)
  [] p = "pes.restore" -> Goto(l, "fpn.load_sent")
  \* ---- remainder / insert
  [] p = "val.load_minseg" ->
        IF l.rem - Hdr(l.dend) >= r.old
        THEN EnterInsert([l EXCEPT !.meta.ms = l.msize - l.rem], l.dend, l.rem, "zero")
        ELSE Goto(l, "zero")
  [] p = "ins.load_minseg" ->
        IF l.isize - Hdr(l.ioff) < r.old THEN Goto(l, "ins.fadd_small")
        ELSE Goto([l EXCEPT !.node = Align8(l.ioff), !.dsize = l.isize - Hdr(l.ioff)], "fp.load_sent")
  [] p = "ins.fadd_small" -> Return(l)
  [] p = "fp.load_sent" -> Resolve(FpLoop([l EXCEPT !.fcur = SENT, !.fcw = r.old]))
  [] p = "fp.load_cur"  -> Resolve(FpLoop([l EXCEPT !.fcur = l.fcw.next, !.fcw = r.old]))
  [] p = "fp.load_next" ->
        IF r.old.size = 0 THEN (IF FixedList THEN Goto(l, "fp.load_sent") ELSE Goto(l, p))   \* as found: re-reads `next` only (C07 finding)
        ELSE IF ~Chk(l.dsize, r.old.size)
             THEN Resolve(FpLoop([l EXCEPT !.fcur = l.fcw.next, !.fcw = r.old]))
        ELSE Resolve(Goto(l, "ins.after_find"))
  [] p = "ins.store_node" -> Goto(l, "ins.cas_link")
  [] p = "ins.cas_link" -> (IF r.ok THEN Goto(l, "ins.fadd_hdr") ELSE Goto(l, "fp.load_sent"))
  [] p = "ins.fadd_hdr" -> Return(l)
  \* ---- dealloc
  [] p = "de.cas_cur" ->
        IF r.ok THEN Done(l, "released")
        ELSE IF Kind = "none" THEN Goto(l, "de.fadd_disc")
        ELSE EnterInsert(l, l.ioff, l.isize, "done")
  [] p = "de.fadd_disc" -> Done(l, "released")
  \* ---- discard
  [] p = "dis.load_sent" ->
        IF r.old = WS THEN Done(l, "discarded")
        ELSE IF r.old.next = 0 THEN Goto(l, p)
        ELSE LoadNode([l EXCEPT !.sw = r.old, !.head = r.old.next], r.old.next, "dis.load_head")
  [] p = "dis.load_head" ->
        IF r.old.size = 0 THEN Goto(l, "dis.load_sent") ELSE Goto([l EXCEPT !.hw = r.old], "dis.cas_mark")
  [] p = "dis.cas_mark" -> (IF r.ok THEN Goto(l, "dis.cas_unlink") ELSE Goto(l, "dis.load_sent"))
  [] p = "dis.cas_unlink" -> (IF r.ok THEN Goto(l, "dis.fadd") ELSE IF FixedList THEN Goto(l, "dis.restore") ELSE Goto(l, "dis.load_sent"))
  [] p = "dis.restore" -> Goto(l, "dis.load_sent")
  [] p = "dis.fadd" -> Goto([l EXCEPT !.acc = l.acc + (IF l.hw.size > 0 THEN l.hw.size ELSE 0)], "dis.load_sent")
  [] p = "sm.store" -> Done(l, "set")
  [] p = "id.fadd" -> Done(l, "set")
  \* ---- reference counting
  [] p = "rc.fadd" -> Done(l, "cloned")
  [] p = "rc.fsub" -> (IF r.old # 1 THEN Done(l, "dropped") ELSE Goto(l, "rc.load"))
  [] p = "rc.load" -> Goto(l, "rc.unmount")
  [] p = "rc.unmount" -> Done(l, "unmounted")
  \* ---- non-atomic
  [] p = "zero" -> Done([l EXCEPT !.meta = IF l.ret = "fast" THEN l.meta ELSE FinalMeta(l)], "ok")
  [] p = "user.fill" -> Done(l, "user")
  [] p = "user.verify" -> Done(l, "user")
  [] p = "user.write" -> Done(l, "user")

\* ---------------------------------------------------------------- shared memory
Read(at) == IF at = CUR THEN cursor ELSE IF at = DISC THEN disc ELSE IF at = MSEG THEN minseg
            ELSE IF at = SENT THEN sent ELSE IF at = REFS THEN refs ELSE IF at \in {ZERO, USER, UNMAP} THEN 0 ELSE WordAt(mem, at)

\* ---------------------------------------------------------------- programs
ProgOf(t) == Prog[t]
HandleId(t, k) == (t + 1) * 50 + k
NextOwnId(t) == HandleId(t, 1 + Cardinality({h \in DOMAIN hs : hs[h].t = t /\ h >= HandleId(t, 1) /\ h < HandleId(t, 50)}))

\* first label and locals of an op; ops on a handle that does not exist are skipped (the harness returns at once)
Skippable(op, lv) == (op.k \in {"drop", "fill", "verify", "write"} /\ op.h \notin lv) \/ (op.k = "discard" /\ Kind = "none")
StartOf(t, op) ==
  IF op.k = "ab" THEN Goto([L0 EXCEPT !.opk = "ab", !.n = op.n], "al.load_cur")
  ELSE IF op.k = "at" THEN Goto([L0 EXCEPT !.opk = "at", !.ts = op.s, !.ta = op.a, !.n = op.s + op.a - 1], "al.load_cur")
  ELSE IF op.k = "aa" THEN Goto([L0 EXCEPT !.opk = "aa", !.ts = op.s, !.ta = op.a, !.ex = op.n, !.n = op.s + op.a - 1 + op.n], "al.load_cur")
  ELSE IF op.k = "drop" THEN Goto([L0 EXCEPT !.opk = "drop", !.h = op.h, !.ioff = hs[op.h].mo, !.isize = hs[op.h].ms], "de.cas_cur")
  ELSE IF op.k = "discard" THEN Goto([L0 EXCEPT !.opk = "discard"], "dis.load_sent")
  ELSE IF op.k = "setmin" THEN Goto([L0 EXCEPT !.opk = "setmin", !.n = op.v], "sm.store")
  ELSE IF op.k = "incdisc" THEN Goto([L0 EXCEPT !.opk = "incdisc", !.n = op.v], "id.fadd")
  ELSE IF op.k = "clone" THEN Goto([L0 EXCEPT !.opk = "clone"], "rc.fadd")
  ELSE IF op.k \in {"drop_arena", "drop_clone"} THEN Goto([L0 EXCEPT !.opk = op.k], "rc.fsub")
  ELSE IF op.k = "fill" THEN Goto([L0 EXCEPT !.opk = "fill", !.h = op.h], "user.fill")
  ELSE IF op.k = "verify" THEN Goto([L0 EXCEPT !.opk = "verify", !.h = op.h], "user.verify")
  ELSE Goto([L0 EXCEPT !.opk = "write", !.h = op.h, !.v = W(op.vw[1], op.vw[2]), !.at = op.at], "user.write")

\* skip over ops that need no step
RECURSIVE SkipFrom(_, _, _)
SkipFrom(t, i, lv) == IF i <= Len(ProgOf(t)) /\ Skippable(ProgOf(t)[i], lv) THEN SkipFrom(t, i + 1, lv) ELSE i

Finished(t) == pc[t] = "idle" /\ ip[t] > Len(ProgOf(t))
AllDone == \A t \in Threads : Finished(t)

PatOf(h) == PatternOf(h)

\* one step of thread t: the access at its label (starting its next op first if idle)
Step(t) ==
  /\ ~Finished(t)
  /\ pc[t] \notin {"oob"}
  /\ LET fresh == pc[t] = "idle"
         op == ProgOf(t)[ip[t]]
         b == IF fresh THEN StartOf(t, op) ELSE Goto(loc[t], pc[t])
         \* a release call gives the range up at its entry
         live1 == IF fresh /\ op.k = "drop" THEN live \ {op.h} ELSE live
         a == Access(b.pc, b.loc)
         old == Read(a.at)
         ok == IF a.kind \in {"cas", "casw"} THEN old = a.exp ELSE TRUE
         c == Cont(b.pc, b.loc, [old |-> old, ok |-> ok])
         wr == a.kind = "store" \/ (a.kind \in {"cas", "casw"} /\ ok) \/ a.kind \in {"fadd", "fsub"}
         nv == IF a.kind = "fadd" THEN old + a.exp ELSE IF a.kind = "fsub" THEN old - a.exp
               ELSE IF a.kind = "store" THEN a.exp ELSE a.new
         hr == IF a.at = USER THEN hs[a.exp] ELSE M0
     IN
     /\ cursor' = IF wr /\ a.at = CUR THEN nv ELSE cursor
     /\ disc' = IF wr /\ a.at = DISC THEN nv ELSE disc
     /\ minseg' = IF wr /\ a.at = MSEG THEN nv ELSE minseg
     /\ sent' = IF wr /\ a.at = SENT THEN nv ELSE sent
     /\ refs' = IF wr /\ a.at = REFS THEN nv ELSE refs
     /\ freed' = IF a.kind = "unmount" THEN freed + 1 ELSE freed
     \* C13 (multi-threaded): nothing touches the arena once its memory is gone
     /\ touchedAfterFree' = (touchedAfterFree \/ (freed > 0))
     /\ mem' = IF wr /\ a.at >= 0 THEN PutWord(mem, a.at, nv)
               ELSE IF a.kind = "zero" THEN SetBytes(mem, a.exp, a.exp + a.new, 0)
               ELSE IF a.kind = "fill" THEN SetBytes(mem, hr.po, hr.po + hr.ps, PatOf(a.exp))
               ELSE IF a.kind = "write" /\ b.loc.at + 8 <= hr.ps THEN PutWord(mem, hr.po + b.loc.at, a.new)
               ELSE mem
     /\ IF c.pc = "done"
        THEN /\ pc' = [pc EXCEPT ![t] = "idle"]
             /\ loc' = [loc EXCEPT ![t] = L0]
             /\ IF c.loc.res = "ok"
                THEN LET id == NextOwnId(t) m == c.loc.meta IN
                     /\ hs' = (id :> [mo |-> m.mo, ms |-> m.ms, po |-> m.po, ps |-> m.ps, pat |-> 0, t |-> t, wat |-> 0, wv |-> W0]) @@ hs
                     /\ live' = live1 \cup {id}
                ELSE IF a.kind = "fill" THEN hs' = [hs EXCEPT ![a.exp].pat = PatOf(a.exp)] /\ live' = live1
                ELSE IF a.kind = "write" THEN hs' = [hs EXCEPT ![a.exp].pat = -1, ![a.exp].wat = b.loc.at, ![a.exp].wv = a.new] /\ live' = live1
                ELSE hs' = hs /\ live' = live1
             /\ ip' = [ip EXCEPT ![t] = SkipFrom(t, ip[t] + 1, live')]
        ELSE /\ pc' = [pc EXCEPT ![t] = c.pc]
             /\ loc' = [loc EXCEPT ![t] = c.loc]
             /\ hs' = hs /\ live' = live1
             /\ ip' = ip

\* what the next step of t accesses (for wrappers that observe steps: happens-before, crash points)
Info(t) ==
  LET fresh == pc[t] = "idle"
      op == ProgOf(t)[ip[t]]
      b == IF fresh THEN StartOf(t, op) ELSE Goto(loc[t], pc[t])
      a == Access(b.pc, b.loc)
      old == Read(a.at)
      ok == IF a.kind \in {"cas", "casw"} THEN old = a.exp ELSE TRUE
  IN [a |-> a, ok |-> ok, label |-> b.pc, at |-> b.loc.at,
      h |-> IF a.at = USER THEN hs[a.exp] ELSE [po |-> 0, ps |-> 0]]

\* ops that take no step at all are consumed together with the preceding step (and at the start)

Init ==
  /\ cursor = Setup.cursor /\ disc = Setup.disc /\ minseg = MinSeg0 /\ sent = Setup.sent /\ mem = Setup.mem
  /\ hs = Setup.handles /\ live = DOMAIN Setup.handles
  /\ pc = [t \in Threads |-> "idle"] /\ loc = [t \in Threads |-> L0]
  /\ ip = [t \in Threads |-> SkipFrom(t, 1, DOMAIN Setup.handles)]
  /\ refs = Setup.refs /\ freed = 0 /\ touchedAfterFree = FALSE

Next == \E t \in Threads : Step(t)
Spec == Init /\ [][Next]_vars
FairSpec == Spec /\ \A t \in Threads : WF_vars(Step(t))

\* ---------------------------------------------------------------- properties
\* C02
LiveDisjoint == \A a, b \in live : a # b => Disjoint(Acc(hs[a]), Acc(hs[b]))
LiveInBounds == \A a \in live : hs[a].ps = 0 \/ (DataOff <= hs[a].po /\ hs[a].po + hs[a].ps <= Cap)
LiveIntact == \A a \in live :
                 /\ hs[a].pat > 0 => \A i \in hs[a].po..(hs[a].po + hs[a].ps - 1) : mem[i] = hs[a].pat
                 \* a handle into which its owner wrote a word still holds that word
                 /\ (hs[a].pat = -1 /\ (hs[a].po + hs[a].wat) % 8 = 0) => WordAt(mem, hs[a].po + hs[a].wat) = hs[a].wv
NoOutOfBounds == \A t \in Threads : pc[t] # "oob"
\* C12 / C13: the backing memory is released exactly once, by the last reference, and never touched afterwards
FreedAtMostOnce == freed <= 1
FreedOnlyAtZero == (freed > 0) => refs = 0
NoAccessAfterFree == ~touchedAfterFree
\* C07
Termination == <>AllDone
=============================================================================
