SPECIFICATION Spec
CONSTANTS
  PageSize = 4096
  MaxReserved = 0
  MaxData = 0
POSTCONDITION Post
CHECK_DEADLOCK FALSE
