SPECIFICATION Spec
CONSTANT P = 4096
POSTCONDITION Post
CHECK_DEADLOCK FALSE
