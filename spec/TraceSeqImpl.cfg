SPECIFICATION Spec
CONSTANT FixedRewind = TRUE
POSTCONDITION Post
CHECK_DEADLOCK FALSE
