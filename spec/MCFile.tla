------------------------------- MODULE MCFile -------------------------------
(* Every class of arena file x every open attempt: the C09 predicates on the outcome of ArenaFile!Open. *)
EXTENDS ArenaFile

VARIABLES f, att, out, phase
vars == <<f, att, out, phase>>

Files ==
  {[exists |-> TRUE, len |-> ln, kind |-> k, text |-> tx, magic |-> mg, ver |-> vr, cursor |-> 60, tail |-> tl] :
      ln \in {0, 7, 31, 32, 45, 100}, k \in {0, 1, 2, 7}, tx \in {"al", "xx"}, mg \in {0, 5}, vr \in {0, 1}, tl \in {"data", "zero"}}
  \cup {[exists |-> FALSE, len |-> 0, kind |-> 0, text |-> "al", magic |-> 0, ver |-> 0, cursor |-> 0, tail |-> "zero"]}
Attempts ==
  {[variant |-> v, cap |-> c, reserved |-> r, kind |-> k, magic |-> m, create |-> cr, create_new |-> cn, truncate |-> tr, append |-> ap] :
      v \in {"map_mut", "map_copy", "map", "map_copy_ro"}, c \in {0, 100, 200}, r \in {0, 5}, k \in {0, 1, 2}, m \in {0, 5},
      cr \in BOOLEAN, cn \in BOOLEAN, tr \in BOOLEAN, ap \in BOOLEAN}

Init == f \in Files /\ att \in Attempts /\ out = [res |-> "none"] /\ phase = 0
Next == phase = 0 /\ phase' = 1 /\ out' = Open(f, att) /\ UNCHANGED <<f, att>>
Spec == Init /\ [][Next]_vars

Inv == phase = 1 => (MismatchRefused(f, att, out) /\ RefusedLeavesBytes(f, att, out) /\ ReadOnlyNeverWrites(f, att, out))
=============================================================================
