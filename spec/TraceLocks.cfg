SPECIFICATION Spec
CONSTANT Sessions = {1, 2, 3}
POSTCONDITION Post
CHECK_DEADLOCK FALSE
