------------------------------ MODULE MCHandles ------------------------------
(* Every history of clone / alloc* / owned / detach / drop / drop of arena values (incl. the original first) / *)
(* remove_on_drop up to MaxLen calls; the C13 lifetime predicates in every state and transition; with Emit    *)
(* every transition prints its history as a driver for the real code.                                          *)
EXTENDS Handles, Json

CONSTANTS Backend, MaxLen, MaxHandles, MaxVals, Emit
VARIABLES st, hist
vars == <<st, hist>>
View == st

Ops(s) ==
  (IF s.vals # {} /\ Cardinality(DOMAIN s.hs) < MaxHandles /\ Backend \notin {"file_ro", "file_cro"}
   THEN {[k |-> k, o |-> o, z |-> z] : k \in {"ab", "at"}, o \in BOOLEAN, z \in BOOLEAN} \cup {[k |-> "adc", o |-> o, z |-> z] : o \in BOOLEAN, z \in BOOLEAN}
   ELSE {})
  \cup {[k |-> "drop", h |-> h] : h \in DOMAIN s.hs}
  \cup {[k |-> "detach", h |-> h] : h \in {h \in DOMAIN s.hs : ~s.hs[h].det}}
  \cup (IF s.vals # {} /\ Cardinality(s.vals) < MaxVals THEN {[k |-> "clone"]} ELSE {})
  \cup {[k |-> "dropval", v |-> v] : v \in {v \in s.vals : ~Pinned(s, v)}}
  \cup (IF s.vals # {} /\ s.file # "none" THEN {[k |-> "rod", b |-> ~s.rod]} ELSE {})

Init == st = New(Backend) /\ hist = <<>>
Next == /\ Len(hist) < MaxLen
        /\ \E op \in Ops(st) :
             LET s2 == Step(st, op) IN
             /\ Assert(DropDelta(st, op, s2), <<"DropDelta", op>>)
             /\ Assert(DroppedOnceOverLife(st, op, s2), <<"DroppedOnceOverLife", op>>)
             /\ st' = s2
             /\ hist' = Append(hist, op)
             /\ (Emit => PrintT(ToJson([drv |-> hist'])))
Spec == Init /\ [][Next]_vars

Inv == RefsEqualsArenaValues(st) /\ ReleasedExactlyAtZero(st) /\ FileRemovedExactlyThen(st) /\ st.released <= 1
=============================================================================
