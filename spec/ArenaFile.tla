------------------------------ MODULE ArenaFile ------------------------------
(***************************************************************************)
(* The open procedures of memory.rs (map_mut_in 356-462 for map_mut and    *)
(* map_copy, map_in 504-601 for map and map_copy_read_only) over an        *)
(* abstract arena file, step by step in the code's order, so that what a   *)
(* refused open has already done to the file is visible.                   *)
(*                                                                         *)
(* file = [exists, len, kind, text, magic, ver, cursor, tail]              *)
(*   kind/text/magic/ver : the eight identification bytes after the        *)
(*     reserved prefix (freelist byte, "al", magic version, format version)*)
(*   cursor : the stored allocated mark;  tail : "data" if some byte of    *)
(*     [cursor, len) is non-zero, else "zero"                              *)
(* att  = [variant, cap (0 = not given), reserved, kind, magic, create,    *)
(*         create_new]                                                     *)
(* result = [res, len, tailZeroed, created]: res = "ok" or the io error    *)
(*   kind; tailZeroed = bytes of the file in [cursor, ..) were overwritten *)
(* FixedOrder = FALSE reproduces the original order (zero above the stored *)
(* cursor BEFORE sanity_check, memory.rs:416-426); TRUE is the repaired    *)
(* order (fix: commit, see known_findings.json).                           *)
(***************************************************************************)
EXTENDS Common, TLC

CONSTANT FixedOrder

Prefix(res) == DataOffsetOf(res, TRUE)
KindValid(b) == b \in {0, 1, 2}

\* lib.rs:141 sanity_check, in its order of tests
Sanity(f, att, expectKind) ==
  IF ~KindValid(f.kind) THEN "InvalidData"
  ELSE IF expectKind /\ f.kind # att.kind THEN "InvalidData"
  ELSE IF f.magic # att.magic THEN "InvalidData"
  ELSE IF f.ver # 0 THEN "InvalidData"
  ELSE IF f.text # "al" THEN "InvalidData"
  ELSE "ok"

\* open(2) flags beyond read / write / create: absent from an attempt record = FALSE
Flag(att, name) == IF name \in DOMAIN att THEN att[name] ELSE FALSE
\* std::fs::OpenOptions refuses append + truncate (without create_new) before any system call: EINVAL
FlagsRefused(att) == Flag(att, "append") /\ Flag(att, "truncate") /\ ~att.create_new

Out(res, len, tz, created) == [res |-> res, len |-> len, tailZeroed |-> tz, created |-> created]

\* map_mut / map_copy
OpenWritable(f, att) ==
  LET shared == att.variant = "map_mut" IN
  IF FlagsRefused(att) THEN Out("InvalidInput", f.len, FALSE, FALSE)
  ELSE IF att.create_new /\ f.exists THEN Out("AlreadyExists", f.len, FALSE, FALSE)
  ELSE IF ~f.exists /\ ~(att.create \/ att.create_new) THEN Out("NotFound", 0, FALSE, FALSE)
  ELSE IF ~f.exists \/ att.create_new THEN
       \* a new file: set_len(cap), zero, write identification + header
       (IF att.cap = 0 THEN Out("InvalidInput", 0, FALSE, TRUE)        \* empty file cannot hold the prefix
        ELSE IF Prefix(att.reserved) > att.cap THEN Out("InvalidInput", att.cap, FALSE, TRUE)
        ELSE Out("ok", att.cap, FALSE, TRUE))
  \* truncate(true) on an existing file: open(2) empties it (O_TRUNC), the code then takes it for an existing arena
  \* file (opts.open answers "not newly created") and an empty file cannot hold the prefix: the open is ALWAYS refused
  \* and the file is left empty -- with or without create(true), whatever capacity is given
  ELSE IF Flag(att, "truncate") THEN Out("InvalidInput", 0, f.len > 0, FALSE)
  ELSE IF f.len < Prefix(att.reserved) THEN Out("InvalidInput", f.len, FALSE, FALSE)          \* 370-375
  ELSE
  LET len2 == IF att.cap # 0 /\ f.len < att.cap THEN att.cap ELSE f.len                       \* 377-381 set_len
      maplen == IF att.cap # 0 THEN att.cap ELSE f.len
  IN
  IF Prefix(att.reserved) > maplen THEN Out("InvalidInput", len2, FALSE, FALSE)                \* 387 check_capacity
  ELSE
  LET s == Sanity(f, att, TRUE)
      wouldZero == maplen > f.cursor /\ f.tail = "data" /\ shared     \* 416-420 (private mappings never reach the file)
  IN
  IF FixedOrder
  THEN (IF s # "ok" THEN Out(s, len2, FALSE, FALSE) ELSE Out("ok", len2, wouldZero, FALSE))
  ELSE Out(s, len2, wouldZero, FALSE)

\* map / map_copy_read_only
OpenReadOnly(f, att) ==
  IF ~f.exists THEN Out("NotFound", 0, FALSE, FALSE)
  ELSE IF f.len < Prefix(att.reserved) THEN Out("InvalidInput", f.len, FALSE, FALSE)
  ELSE LET maplen == IF att.cap # 0 THEN Min(f.len, att.cap) ELSE f.len IN
       IF Prefix(att.reserved) > maplen THEN Out("InvalidInput", f.len, FALSE, FALSE)
       ELSE Out(Sanity(f, att, FALSE), f.len, FALSE, FALSE)

Open(f, att) == IF att.variant \in {"map_mut", "map_copy"} THEN OpenWritable(f, att) ELSE OpenReadOnly(f, att)

\* ---------------------------------------------------------------- C09, first half
Writable(att) == att.variant \in {"map_mut", "map_copy"}
Mismatch(f, att) ==
  f.exists /\ ~att.create_new /\
  (f.len < Prefix(att.reserved)
   \/ (f.len >= att.reserved + 8 /\ (~KindValid(f.kind) \/ (Writable(att) /\ f.kind # att.kind)
                                      \/ f.magic # att.magic \/ f.ver # 0 \/ f.text # "al")))
MismatchRefused(f, att, o) == Mismatch(f, att) => o.res # "ok"
\* the caller asked for the file to be emptied: what happens to its bytes is not for C09 to judge
AskedToTruncate(att) == Writable(att) /\ Flag(att, "truncate") /\ ~Flag(att, "append")
RefusedLeavesBytes(f, att, o) == (o.res # "ok" /\ f.exists /\ ~AskedToTruncate(att)) => (~o.tailZeroed /\ o.len >= f.len)
ReadOnlyNeverWrites(f, att, o) == (~Writable(att) /\ f.exists) => (~o.tailZeroed /\ o.len = f.len)
=============================================================================
