------------------------------- MODULE Common -------------------------------
(***************************************************************************)
(* Arithmetic, ranges, run-length encoded memory and the type menu shared  *)
(* by every specification of the rarena suite and by the harness           *)
(* (harness/src/common.rs, macro with_type).                               *)
(***************************************************************************)
EXTENDS Integers, Sequences, FiniteSets

Max(a, b) == IF a >= b THEN a ELSE b
Min(a, b) == IF a <= b THEN a ELSE b
Align(x, a) == ((x + a - 1) \div a) * a
Align8(x) == Align(x, 8)

\* the saturation value the harness uses for numbers TLC cannot represent
SAT == 1073741824

\* ---- half-open ranges [lo, hi) ----
Rng(lo, hi) == [lo |-> lo, hi |-> hi]
Empty(r) == r.hi <= r.lo
Disjoint(a, b) == Empty(a) \/ Empty(b) \/ a.hi <= b.lo \/ b.hi <= a.lo
Inside(a, b) == Empty(a) \/ (b.lo <= a.lo /\ a.hi <= b.hi)

\* ---- handles: mo/ms = buffer_offset/buffer_capacity, po/ps = offset/capacity ----
Acc(h) == Rng(h.po, h.po + h.ps)
Ext(h) == Rng(Min(h.mo, h.po), Max(h.mo + h.ms, h.po + h.ps))

\* ---- free-list segments: <<node offset, data size>>; a segment occupies node + 8 + size ----
Seg(s) == Rng(s[1], s[1] + 8 + s[2])

\* ---- run-length encoded memory: sequence of <<lo, len, value>> ----
RangeIs(runs, lo, hi, v) ==
  \A i \in 1..Len(runs) :
     (runs[i][1] < hi /\ runs[i][1] + runs[i][2] > lo) => runs[i][3] = v
\* the runs restricted to [0, hi) (canonical, so equality of clipped runs = equality of bytes)
Clip(runs, hi) ==
  LET kept == SelectSeq(runs, LAMBDA r : r[1] < hi) IN
  [i \in 1..Len(kept) |->
     IF kept[i][1] + kept[i][2] > hi THEN <<kept[i][1], hi - kept[i][1], kept[i][3]>> ELSE kept[i]]
\* the runs restricted to [lo, hi)
Window(runs, lo, hi) ==
  LET kept == SelectSeq(runs, LAMBDA r : r[1] < hi /\ r[1] + r[2] > lo) IN
  [i \in 1..Len(kept) |->
     LET a == Max(kept[i][1], lo) b == Min(kept[i][1] + kept[i][2], hi) IN <<a, b - a, kept[i][3]>>]
\* bytes of [lo, hi) equal in both encodings
ByteAt(runs, i) == LET k == CHOOSE k \in 1..Len(runs) : runs[k][1] <= i /\ i < runs[k][1] + runs[k][2] IN runs[k][3]
SameRange(ra, rb, lo, hi) == \A i \in lo..(hi - 1) : ByteAt(ra, i) = ByteAt(rb, i)

SumSizes(fl) ==
  LET S[k \in 0..Len(fl)] == IF k = 0 THEN 0 ELSE S[k - 1] + fl[k][2] IN S[Len(fl)]

\* ---- type menu: records [size, align]; Pad(T) is what the slow path asks the list for ----
Pad(T) == T.size + T.align - 1
TypeMenu == { [size |-> 0, align |-> 1], [size |-> 0, align |-> 2], [size |-> 0, align |-> 8], [size |-> 0, align |-> 16],
              [size |-> 1, align |-> 1], [size |-> 2, align |-> 1],
              [size |-> 3, align |-> 1], [size |-> 5, align |-> 1], [size |-> 9, align |-> 1],
              [size |-> 17, align |-> 1], [size |-> 64, align |-> 1], [size |-> 2, align |-> 2],
              [size |-> 6, align |-> 2], [size |-> 4, align |-> 4], [size |-> 12, align |-> 4],
              [size |-> 8, align |-> 8], [size |-> 16, align |-> 8], [size |-> 24, align |-> 8],
              [size |-> 40, align |-> 8], [size |-> 16, align |-> 16], [size |-> 32, align |-> 16],
              [size |-> 64, align |-> 16], [size |-> 64, align |-> 64] }

\* ---- layout: data offset of an arena (sync and unsync headers are both 24 bytes, align 8) ----
HeaderSize == 24
DataOffsetOf(reserved, unify) == IF unify THEN Align8(reserved) + 8 + HeaderSize ELSE reserved + 1

\* the pattern byte the harness writes through handle h, and into the reserved prefix
PatternOf(h) == ((h - 1) % 250) + 1
ReservedPattern == 238
=============================================================================
