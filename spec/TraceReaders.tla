---------------------------- MODULE TraceReaders ----------------------------
(***************************************************************************)
(* Property-level trace specification for executions of the real           *)
(* arena-level readers (harness_small/src/rd.rs).  A monitor: every event  *)
(* carries allocated()/capacity()/data_offset() and the window of memory() *)
(* at the offset; the C15 predicates of Readers.tla recompute the expected *)
(* result from the logged arguments (byte order = sequence reversal, the   *)
(* varint length = position of the first byte below 128 in the window      *)
(* clipped at allocated()) and a false one prints                          *)
(*     <<"VIOL", "C15", predicate, line, 0>>                               *)
(* The same call is replayed on the Readers machine at true width          *)
(* (saturated offsets stand for "beyond every arena"): a different result  *)
(* kind prints a DRIFT line.                                               *)
(***************************************************************************)
EXTENDS Readers, TLC, Json, IOUtils

Rec == ndJsonDeserialize(IOEnv.TRACE)

VARIABLES l, live
vars == <<l, live>>

Viol(prop, pred, ok) == IF ok THEN TRUE ELSE PrintT(<<"VIOL", prop, pred, l, 0>>)
Report(Ps) == \A i \in 1..Len(Ps) : Viol(Ps[i][1], Ps[i][2], Ps[i][3])

\* the repaired machine at a width no offset of the trace reaches (offsets are saturated at 2^30)
Big == 2000000000
MachineKind(e) ==
  IF e.op.k = "rd" THEN ReadFixed(e.alloc, e.op.off, Size(e.op.ty), Big, TRUE, "repaired").k
  ELSE ReadVarint(e.alloc, e.op.off, MaxLen(e.op.ty),
                  [i \in 1..(e.op.off + Len(e.win)) |-> IF i > e.op.off THEN e.win[i - e.op.off] ELSE 0]).k
Drift(e) ==
  IF e.op.k \in {"rd", "rdv"} /\ e.res.k \in {"ok", "oob", "err"} /\ (e.op.k = "rdv" => e.op.off <= e.cap + 64)
  \* the machine's decoder fails only for a missing terminator; the library also refuses values that overflow the type
  THEN (IF (MachineKind(e) = "oob") # (e.res.k = "oob") \/ (MachineKind(e) = "err" /\ e.res.k = "ok")
           \/ (e.op.k = "rd" /\ MachineKind(e) # e.res.k)
        THEN PrintT(<<"DRIFT", l, 0, e.op.k>>) ELSE TRUE)
  ELSE TRUE

Init == l = 1 /\ live = FALSE

StepReset ==
  LET e == Rec[l] IN
  /\ e.ev = "reset"
  /\ live' = e.ok
  /\ l' = l + 1

PredsOfEvent(e) ==
  IF e.op.k = "rd" THEN FixedPreds(e.alloc, e.op, e.res, e.win)
  ELSE IF e.op.k = "rdv" THEN VarintPreds(e.alloc, e.op, e.res, e.win, e.ref)
  ELSE IF e.op.k = "lens" THEN LensPreds(e.alloc, e.doff, e.cap, e.res)
  ELSE <<>>

StepOp ==
  LET e == Rec[l] IN
  /\ e.ev = "op"
  /\ IF live
     THEN IF e.res.k = "died"
          THEN Report(<<PR("ProcessDied", FALSE)>>) /\ live' = FALSE
          ELSE Report(PredsOfEvent(e)) /\ Drift(e) /\ live' = TRUE
     ELSE UNCHANGED live
  /\ l' = l + 1

StepSkip == /\ Rec[l].ev \notin {"reset", "op"} /\ l' = l + 1 /\ UNCHANGED live

Next == l <= Len(Rec) /\ (StepReset \/ StepOp \/ StepSkip)
Spec == Init /\ [][Next]_vars

Consumed == TLCGet("stats").diameter - 1 = Len(Rec)
Post == IF Consumed THEN PrintT(<<"TRACE-CONSUMED", Len(Rec)>>)
        ELSE PrintT(<<"TRACE-STUCK", TLCGet("stats").diameter, Len(Rec)>>) /\ FALSE
=============================================================================
