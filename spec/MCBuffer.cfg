SPECIFICATION Spec
VIEW View
CONSTANTS
  Variant = "repaired"
  Pres = {0, 2, 3}
  Ns = {0, 1, 3, 5}
  Aligns = {4, 8}
  Recycled = TRUE
  NLEs = {TRUE, FALSE}
  MaxLen = 3
  Emit = FALSE
INVARIANTS LenWithinCap ShapeKept NeighboursIntact RoundTripAlgebra
CHECK_DEADLOCK FALSE
