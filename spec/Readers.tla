------------------------------- MODULE Readers -------------------------------
(***************************************************************************)
(* The arena-level readers of the Allocator trait (allocator.rs:5-87,      *)
(* 822-905): get_u8/get_i8, get_{u,i}{16..128}_{be,le}, get_*_varint, and  *)
(* the slice constructors allocated_memory()/data()/memory().              *)
(*                                                                         *)
(* Part 1 - the machine, width-parametric: usize is 0..maxu (a model       *)
(*   constant such as 255, so that `offset + SIZE` wrapping around is      *)
(*   explorable), `checked` = the build has overflow checks.               *)
(*   variant = "repaired": the bound is computed with checked_add (fix:    *)
(*   commit); "orig": `offset + SIZE > allocated` as first written.        *)
(*   A read reports the half-open range of memory offsets it touches, in   *)
(*   unbounded integers - touching anything at or above allocated() is     *)
(*   what the property forbids.                                            *)
(* Part 2 - property C15 as predicates over one observed call.             *)
(***************************************************************************)
EXTENDS Buffer

Wrap(x, maxu) == x % (maxu + 1)
\* usize addition in a build with / without overflow checks
Add(a, b, maxu, checked) ==
  IF a + b <= maxu THEN [k |-> "val", v |-> a + b]
  ELSE IF checked THEN [k |-> "panic", v |-> 0] ELSE [k |-> "val", v |-> Wrap(a + b, maxu)]

Oob == [k |-> "oob", lo |-> 0, hi |-> 0]
Touch(lo, hi) == [k |-> "ok", lo |-> lo, hi |-> hi]

\* impl_bytes_utils_for_allocator: allocator.rs:5-20
ReadFixed(alloc, off, size, maxu, checked, variant) ==
  IF size = 1 THEN (IF off >= alloc THEN Oob ELSE Touch(off, off + 1))      \* get_u8 / get_i8 compare, never add
  ELSE IF variant = "orig"
  THEN LET e == Add(off, size, maxu, checked) IN
       IF e.k = "panic" THEN [k |-> "panic", lo |-> 0, hi |-> 0]
       ELSE IF e.v > alloc THEN Oob ELSE Touch(off, off + size)
  ELSE IF off + size > maxu \/ off + size > alloc THEN Oob ELSE Touch(off, off + size)   \* checked_add

\* impl_leb128_utils_for_allocator: allocator.rs:55-72; the decoder gets min(allocated - offset, maxlen) bytes
VarintWindow(alloc, off, maxlen) == IF off >= alloc THEN 0 ELSE MinOf(alloc - off, maxlen)
ReadVarint(alloc, off, maxlen, mem) ==
  IF off >= alloc THEN Oob
  ELSE LET w == VarintWindow(alloc, off, maxlen)
           t == Terminator([i \in 1..w |-> mem[off + i]]) IN
       IF t = 0 THEN [k |-> "err", lo |-> off, hi |-> off + w] ELSE [k |-> "ok", lo |-> off, hi |-> off + t, n |-> t]

MaxLen(ty) == CASE Size(ty) = 2 -> 3 [] Size(ty) = 4 -> 5 [] Size(ty) = 8 -> 10 [] Size(ty) = 16 -> 19

\* ------------------------------------------------------------------ part 2: property C15
(* alloc = allocated() at the call; op = [k, ty, ord, off]; res = [k, v, n]; win = the bytes of memory() from off
   (as many as exist, at most SIZE resp. the longest encoding); ref = the varint library on the window clipped at
   allocated().  Offsets at or above 2^30 are saturated in traces; every arena is far smaller.                     *)
PR(name, ok) == <<"C15", name, ok>>

FixedPreds(alloc, op, res, win) ==
  LET size == Size(op.ty)
      inb == op.off + size <= alloc IN
  IF res.k = "died" THEN <<PR("ProcessDied", FALSE)>>
  ELSE IF res.k = "panic" THEN <<PR("NoPanic", FALSE)>>
  ELSE <<PR("ResultKind", res.k \in {"ok", "oob"}),
         PR("OkOnlyBelowAllocated", (res.k = "ok") => inb),
         PR("OutOfBoundsOnlyWhenNotBelowAllocated", (res.k = "oob") => ~inb)>> \o
       (IF res.k = "ok" /\ inb THEN <<PR("ValueDecoded", res.v = Dec(op.ord, Sub(win, 1, size), TRUE))>> ELSE <<>>)

VarintPreds(alloc, op, res, win, ref) ==
  LET w == MinOf(Len(win), VarintWindow(alloc, op.off, MaxLen(op.ty)))
      clipped == Sub(win, 1, w) IN
  IF res.k = "died" THEN <<PR("ProcessDied", FALSE)>>
  ELSE IF res.k = "panic" THEN <<PR("NoPanic", FALSE)>>
  ELSE <<PR("ResultKind", res.k \in {"ok", "oob", "err"}),
         PR("OutOfBoundsIffAtOrAboveAllocated", (res.k = "oob") = (op.off >= alloc))>> \o
       (IF res.k = "ok"
        THEN <<PR("VarintConsumesBelowAllocated", res.n >= 1 /\ op.off + res.n <= alloc),
               PR("VarintStopsAtTerminator", res.n = Terminator(clipped)),
               PR("ValueDecoded", ref.k = "ok" /\ ref.n = res.n /\ ref.v = res.v)>>
        ELSE IF res.k = "err" THEN <<PR("VarintErrorJustified", ref.k = "err")>>
        ELSE <<>>)

LensPreds(alloc, doff, cap, res) ==
  IF res.k # "ok" THEN <<PR("NoPanic", FALSE)>>
  ELSE <<PR("AllocatedMemoryLen", res.allocated_memory = alloc),
         PR("DataLen", res.data = alloc - doff),
         PR("MemoryLen", res.memory = cap)>>
=============================================================================
