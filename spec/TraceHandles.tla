----------------------------- MODULE TraceHandles -----------------------------
(***************************************************************************)
(* C13 (lifetimes) on real executions of `rvh handles`: every logged call  *)
(* is applied to the Handles model; after it the observation of the real   *)
(* arena must satisfy the property predicates (VIOL) -- refs() equals the  *)
(* number of live arena values incl. those embedded in owned handles, the  *)
(* backing memory is released exactly once and exactly when that number    *)
(* reaches zero, a needs-drop value is dropped exactly once with its       *)
(* non-detached handle, a remove-on-drop file disappears exactly then --   *)
(* and must equal what the model computes (DRIFT).                         *)
(***************************************************************************)
EXTENDS Handles, Json, IOUtils

Rec == ndJsonDeserialize(IOEnv.TRACE)
VARIABLES l, st, tot, vd
vars == <<l, st, tot, vd>>   \* vd: handle id |-> how often its value has been dropped so far (its write included)
Viol(prop, pred, ok) == IF ok THEN TRUE ELSE PrintT(<<"VIOL", prop, pred, l, 0>>)
Drift(what) == PrintT(<<"DRIFT", l, 0, what>>)

Init == l = 1 /\ st = New("vec") /\ tot = [unmounts |-> 0, drops |-> 0] /\ vd = <<>>

Step0 ==
  LET e == Rec[l] IN
  IF e.ev = "reset" THEN st' = New(e.backend) /\ tot' = [unmounts |-> 0, drops |-> 0] /\ vd' = <<>>
  ELSE IF e.ev # "op" \/ e.res = "skip" THEN UNCHANGED <<st, tot, vd>>
  ELSE
  LET op == e.op
      s2 == Step(st, op)
      t2 == [unmounts |-> tot.unmounts + e.unmounts, drops |-> tot.drops + e.drops]
      holders == Holders(s2)
  IN
  /\ st' = s2 /\ tot' = t2
  /\ vd' = IF op.k \in {"ab", "at", "adc"} THEN (st.nextH :> e.drops) @@ vd ELSE vd
  /\ Viol("C13", "RefsEqualsArenaValues", e.refs < 0 \/ e.refs = holders)
  /\ Viol("C13", "MemoryReleasedExactlyOnceAtZero", t2.unmounts = (IF holders = 0 THEN 1 ELSE 0))
  \* over its life (write .. drop of the non-detached handle) the value is dropped exactly once: a sized value with its
  \* handle, a zero-sized one wherever the implementation chooses; no other call drops anything
  /\ Viol("C13", "NeedsDropDroppedExactlyOnce",
          IF op.k = "drop" /\ st.hs[op.h].kind = "dc" /\ ~st.hs[op.h].det THEN vd[op.h] + e.drops = 1
          \* (after detach the value is the caller's: the handle drops nothing)
          ELSE IF op.k = "drop" THEN e.drops = 0
          ELSE IF op.k = "adc" /\ op.z THEN e.drops <= 1
          ELSE e.drops = 0)
  /\ Viol("C13", "FileRemovedExactlyThen", (s2.file = "none") \/ (e.file_exists = ~(holders = 0 /\ s2.rod)))
  /\ Viol("C13", "NoPanic", e.res # "panic")
  /\ ((e.refs >= 0 /\ e.refs # s2.refs) \/ t2.unmounts # s2.released \/ t2.drops # s2.drops
       \/ (s2.file # "none" /\ e.file_exists # (s2.file = "present"))) => Drift("handles-observation")

Next == l <= Len(Rec) /\ Step0 /\ l' = l + 1
Spec == Init /\ [][Next]_vars
Consumed == TLCGet("stats").diameter - 1 = Len(Rec)
Post == IF Consumed THEN PrintT(<<"TRACE-CONSUMED", Len(Rec)>>)
        ELSE PrintT(<<"TRACE-STUCK", TLCGet("stats").diameter, Len(Rec)>>) /\ FALSE
=============================================================================
