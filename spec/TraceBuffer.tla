----------------------------- MODULE TraceBuffer -----------------------------
(***************************************************************************)
(* Property-level trace specification for executions of the real           *)
(* BytesRefMut / BytesMut methods (harness_small/src/buf.rs).  A monitor:  *)
(* the state follows what the code reported (len, bytes of the buffer,     *)
(* memory of the rest of the arena); on every event the C14 predicates of  *)
(* Buffer.tla are recomputed from the logged arguments (byte order =       *)
(* sequence reversal) and a false one prints                               *)
(*     <<"VIOL", "C14", predicate, line, 0>>                               *)
(* The same event is also replayed on the Buffer machine (repaired         *)
(* variant): a different result, len or byte image prints a DRIFT line     *)
(* (the model no longer describes the code; not a verdict).                *)
(* All guards are in expression context.                                   *)
(***************************************************************************)
EXTENDS Buffer, TLC, Json, IOUtils

Rec == ndJsonDeserialize(IOEnv.TRACE)

VARIABLES l, c, obs, mon, live
vars == <<l, c, obs, mon, live>>

Viol(prop, pred, ok) == IF ok THEN TRUE ELSE PrintT(<<"VIOL", prop, pred, l, 0>>)
Report(Ps) == \A i \in 1..Len(Ps) : Viol(Ps[i][1], Ps[i][2], Ps[i][3])

NoCfg == [po |-> 0, cap |-> 0, bmod |-> 0, nle |-> TRUE, mo |-> 0, ms |-> 0]
NoObs == [len |-> 0, buf |-> <<>>, out |-> <<>>]
ObsOfEvent(e) == [len |-> e.len, buf |-> e.buf, out |-> e.out]

\* ---- implementation-level replay of one event on the machine of Buffer.tla
MachineState(o) ==
  [mem |-> [i \in 1..(c.po + c.cap + 32) |-> IF i > c.po /\ i <= c.po + c.cap THEN o.buf[i - c.po] ELSE 0],
   mo |-> c.mo, ms |-> c.ms, po |-> c.po, cap |-> c.cap, len |-> o.len]
Replayable(op, res) ==
  /\ op.k \in {"put", "get", "slice", "setlen", "align", "putt", "putal"}
  /\ res.k \in {"ok", "err", "panic"}
  /\ obs.len <= c.cap /\ Len(obs.buf) = c.cap
ReplayDiffers(op, res, post) ==
  LET r == Apply(MachineState(obs), op, c.nle, "repaired") IN
  \/ r.res.k # res.k
  \/ r.st.len # post.len
  \/ BufOf(r.st) # post.buf
  \/ (op.k = "get" /\ res.k = "ok" /\ r.res.v # res.v)
  \/ (op.k \in {"align", "putal", "putt"} /\ res.k = "ok" /\ ~res.zst /\ r.res.poff # res.poff)
Drift(op, res, post) ==
  IF Replayable(op, res) THEN (IF ReplayDiffers(op, res, post) THEN PrintT(<<"DRIFT", l, 0, op.k>>) ELSE TRUE) ELSE TRUE

Init == l = 1 /\ c = NoCfg /\ obs = NoObs /\ mon = Mon0 /\ live = FALSE

StepReset ==
  LET e == Rec[l] IN
  /\ e.ev = "reset"
  /\ IF e.ok
     THEN /\ Report(<<P("FreshBufferEmpty", e.len = 0), P("BufferWindow", Len(e.buf) = e.cap)>>)
          /\ c' = [po |-> e.po, cap |-> e.cap, bmod |-> e.base_mod, nle |-> e.native_le, mo |-> e.mo, ms |-> e.ms]
          /\ obs' = ObsOfEvent(e)
          /\ live' = TRUE
     ELSE c' = NoCfg /\ obs' = NoObs /\ live' = FALSE
  /\ mon' = Mon0
  /\ l' = l + 1

StepOp ==
  LET e == Rec[l]
      dead == e.res.k = "died"
      post == IF dead THEN obs ELSE ObsOfEvent(e) IN
  /\ e.ev = "op"
  /\ IF live
     THEN /\ Report(Preds(c, mon, obs, e.op, e.res, post))
          /\ Drift(e.op, e.res, post)
          /\ obs' = post
          /\ mon' = MonNext(mon, obs, e.op, e.res, post)
          \* a buffer whose len left its capacity is broken: what later calls do with it says nothing new
          /\ live' = (~dead /\ post.len <= c.cap)
     ELSE UNCHANGED <<obs, mon, live>>
  /\ UNCHANGED c
  /\ l' = l + 1

StepSkip == /\ Rec[l].ev \notin {"reset", "op"} /\ l' = l + 1 /\ UNCHANGED <<c, obs, mon, live>>

Next == l <= Len(Rec) /\ (StepReset \/ StepOp \/ StepSkip)
Spec == Init /\ [][Next]_vars

Consumed == TLCGet("stats").diameter - 1 = Len(Rec)
Post == IF Consumed THEN PrintT(<<"TRACE-CONSUMED", Len(Rec)>>)
        ELSE PrintT(<<"TRACE-STUCK", TLCGet("stats").diameter, Len(Rec)>>) /\ FALSE
=============================================================================
