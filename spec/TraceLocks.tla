----------------------------- MODULE TraceLocks -----------------------------
(***************************************************************************)
(* Real lock calls on sessions sharing one file (harness `rvh locks`).     *)
(*  - what a user relies on, judged on the recorded results alone with the *)
(*    monitor of Locks.tla (sure / maybe):          <<"VIOL", "XLK", ...>> *)
(*  - the model (Locks!Step, incl. the conversion rule) must predict every *)
(*    result:                                                       DRIFT  *)
(***************************************************************************)
EXTENDS Locks, TLC, Json, IOUtils

Rec == ndJsonDeserialize(IOEnv.TRACE)

VARIABLES l, st, sure, maybe, ok
vars == <<l, st, sure, maybe, ok>>

Viol(pred, good) == IF good THEN TRUE ELSE PrintT(<<"VIOL", "XLK", pred, l, 0>>)
Drift(what) == PrintT(<<"DRIFT", l, 0, what>>)

None == [s \in Sessions |-> "none"]
NoMaybe == [s \in Sessions |-> FALSE]
Init == l = 1 /\ st = InitState([s \in Sessions |-> "vec"]) /\ sure = None /\ maybe = NoMaybe /\ ok = FALSE

StepReset ==
  LET e == Rec[l] IN
  /\ e.ev = "reset"
  /\ ok' = e.ok
  /\ st' = IF e.ok THEN InitState([s \in Sessions |-> e.kinds[s]]) ELSE st
  /\ sure' = None /\ maybe' = NoMaybe
  /\ l' = l + 1

StepOp ==
  LET e == Rec[l] op == e.op r == Step(st, op) lastval == op.k = "dropval" /\ st.vals[op.s] = 1 IN
  /\ e.ev = "op" /\ ok
  /\ Viol("NoPanic", e.res.k # "panic")
  /\ Viol("NoError", e.res.k # "err")
  /\ IF e.res.k # "ok" THEN ok' = FALSE /\ UNCHANGED <<st, sure, maybe>>
     ELSE /\ Viol("GrantRespectsHolders", GrantRespectsHolders(sure, op, e.res, IsFile(st, op.s)))
          /\ Viol("SharedRespectsExclusive", SharedRespectsExclusive(sure, op, e.res, IsFile(st, op.s)))
          /\ Viol("RefusedOnlyWhenHeld", RefusedOnlyWhenHeld(maybe, op, e.res, IsFile(st, op.s)))
          \* nothing to lock: lock and unlock succeed, try_lock answers false
          /\ Viol("NoFileNoLock", (~IsFile(st, op.s) /\ op.k \in {"try_ex", "try_sh"}) => ~e.res.v)
          /\ (e.res.v # r.res.v) => Drift("result")
          /\ (r.blocks) => Drift("driver-issued-a-blocking-call")
          /\ (e.nvals # r.st.vals[op.s]) => Drift("values")
          /\ sure' = SureAfter(sure, op, e.res, lastval, IsFile(st, op.s))
          /\ maybe' = MaybeAfter(maybe, op, e.res, lastval, IsFile(st, op.s))
          \* follow the code where the model disagrees, so that the rest of the history is judged
          /\ st' = IF e.res.v = r.res.v THEN r.st
                   ELSE IF op.k \in {"try_ex", "lock_ex"} THEN [r.st EXCEPT !.held[op.s] = IF e.res.v THEN "ex" ELSE "none"]
                   ELSE IF op.k \in {"try_sh", "lock_sh"} THEN [r.st EXCEPT !.held[op.s] = IF e.res.v THEN "sh" ELSE "none"]
                   ELSE r.st
          /\ UNCHANGED ok
  /\ l' = l + 1

StepSkip == /\ ~(Rec[l].ev = "reset" \/ (Rec[l].ev = "op" /\ ok)) /\ UNCHANGED <<st, sure, maybe, ok>> /\ l' = l + 1

Next == l <= Len(Rec) /\ (StepReset \/ StepOp \/ StepSkip)
Spec == Init /\ [][Next]_vars

Consumed == TLCGet("stats").diameter - 1 = Len(Rec)
Post == IF Consumed THEN PrintT(<<"TRACE-CONSUMED", Len(Rec)>>)
        ELSE PrintT(<<"TRACE-STUCK", TLCGet("stats").diameter, Len(Rec)>>) /\ FALSE
=============================================================================
