//! C19 driver: checksum() of the real arenas with (a) the crate's Crc32 and (b) a recording checksummer that logs
//! every `update` as (offset in the arena, length) and feeds a streaming FNV-1a digest; the one-shot references
//! are computed by the same builders over allocated_memory()[reserved_bytes()..]. Digests travel as hex strings.

use crate::common::*;
use rarena_allocator::{
  Buffer,
  checksum::{BuildChecksumer, Checksumer, Crc32},
  sync, unsync,
};
use serde_json::{Value, json};
use std::cell::RefCell;
use std::rc::Rc;

const FNV_OFFSET: u64 = 0xcbf29ce484222325;
const FNV_PRIME: u64 = 0x100000001b3;

fn fnv_feed(mut h: u64, b: &[u8]) -> u64 {
  for x in b {
    h ^= *x as u64;
    h = h.wrapping_mul(FNV_PRIME);
  }
  h
}

#[derive(Clone)]
struct RecBuilder {
  base: usize,
  log: Rc<RefCell<Vec<(u64, u64)>>>,
}

struct RecHasher {
  base: usize,
  log: Rc<RefCell<Vec<(u64, u64)>>>,
  h: u64,
}

impl Checksumer for RecHasher {
  fn update(&mut self, buf: &[u8]) {
    let off = (buf.as_ptr() as usize).wrapping_sub(self.base) as u64;
    self.log.borrow_mut().push((off, buf.len() as u64));
    self.h = fnv_feed(self.h, buf);
  }
  fn reset(&mut self) {
    self.h = FNV_OFFSET;
  }
  fn digest(&self) -> u64 {
    self.h
  }
}

impl BuildChecksumer for RecBuilder {
  type Checksumer = RecHasher;
  fn build_checksumer(&self) -> RecHasher {
    RecHasher { base: self.base, log: self.log.clone(), h: FNV_OFFSET }
  }
  fn checksum_one(&self, src: &[u8]) -> u64 {
    fnv_feed(FNV_OFFSET, src)
  }
}

fn hex(x: u64) -> String {
  format!("{x:016x}")
}

fn run<A: ArenaX>(d: &Value, out: &mut Out, workdir: &str) {
  let cfg = &d["cfg"];
  let id = d["id"].clone();
  let (arena, path) = match build::<A>(cfg, workdir) {
    Ok(x) => x,
    Err(e) => {
      out.emit(&json!({"ev": "reset", "id": id, "cfg": cfg, "ok": false, "err": e}));
      return;
    }
  };
  let a = &arena;
  let mut rng = Rng(cfg["seed"].as_u64().unwrap_or(1));
  // the reserved prefix and everything above the cursor hold noise: a checksum that covers either differs
  unsafe {
    for x in a.reserved_slice_mut().iter_mut() {
      *x = rng.byte();
    }
  }
  let cap = a.capacity();
  for i in a.allocated()..cap {
    unsafe { a.raw_mut_ptr().add(i).write(rng.byte()) };
  }
  out.emit(&json!({"ev": "reset", "id": id, "cfg": cfg, "ok": true, "sync": A::SYNC, "alloc": a.allocated(),
    "cap": cap, "doff": a.data_offset(), "reserved": a.reserved_bytes(), "page": a.page_size()}));
  if let Some(ops) = d["ops"].as_array() {
    for (i, op) in ops.iter().enumerate() {
      let k = op["k"].as_str().unwrap_or("");
      let mut ev = json!({"ev": "op", "id": id, "i": i + 1, "op": op});
      match k {
        "alloc" => {
          let n = op["n"].as_u64().unwrap_or(0) as u32;
          let res = match a.alloc_bytes(n) {
            Ok(mut b) => {
              for j in 0..b.capacity() {
                unsafe { b.as_mut_ptr().add(j).write(rng.byte()) };
              }
              unsafe { b.detach() };
              json!({"k": "ok"})
            }
            Err(_) => json!({"k": "err"}),
          };
          ev["res"] = res;
        }
        "cksum" => {
          let log = Rc::new(RefCell::new(Vec::new()));
          let rec = RecBuilder { base: a.raw_ptr() as usize, log: log.clone() };
          let res = guarded(|| {
            let crc = a.checksum(&Crc32::new());
            let fnv = a.checksum(&rec);
            json!({"k": "ok", "crc": hex(crc), "fnv": hex(fnv)})
          });
          let reserved = a.reserved_bytes();
          let am = a.allocated_memory();
          let data = &am[reserved.min(am.len())..];
          ev["res"] = res;
          ev["crc_ref"] = json!(hex(Crc32::new().checksum_one(data)));
          ev["fnv_ref"] = json!(hex(rec.checksum_one(data)));
          ev["chunks"] = Value::Array(log.borrow().iter().map(|(o, l)| json!([sat(*o), sat(*l)])).collect());
        }
        _ => {
          ev["res"] = json!({"k": "baddriver"});
        }
      }
      ev["alloc"] = json!(a.allocated());
      ev["reserved"] = json!(a.reserved_bytes());
      ev["page"] = json!(a.page_size());
      out.emit(&ev);
    }
  }
  drop(arena);
  if let Some(p) = path {
    let _ = std::fs::remove_file(p);
  }
}

pub fn run_driver(d: &Value, out: &mut Out, workdir: &str) {
  match d["cfg"]["flavor"].as_str().unwrap_or("unsync") {
    "sync" => run::<sync::Arena>(d, out, workdir),
    _ => run::<unsync::Arena>(d, out, workdir),
  }
}
