//! C15 driver: the arena-level readers get_u8/get_i8/get_{u,i}{16..128}_{be,le}/get_*_varint and the slice
//! constructors allocated_memory()/data()/memory(), at any offset (also near usize::MAX), in any fill state.
//!
//! One event per call: arguments (offset saturated at 2^30, the exact value travels as a string), the result
//! (value in significance order), allocated()/capacity()/data_offset() and the window of memory() at the offset.

use crate::common::*;
use rarena_allocator::{Buffer, Error, sync, unsync};
use serde_json::{Value, json};

fn offset_of(op: &Value) -> usize {
  if let Some(s) = op["offx"].as_str() {
    if let Ok(v) = s.parse::<u128>() {
      return v as usize;
    }
  }
  op["off"].as_u64().unwrap_or(0) as usize
}

fn err_res(e: Error) -> Value {
  match e {
    Error::OutOfBounds { offset, allocated } => {
      json!({"k": "oob", "e_off": sat(offset as u64), "e_alloc": sat(allocated as u64)})
    }
    _ => json!({"k": "err"}),
  }
}

macro_rules! rd_case {
  ($a:ident, $ty:ident, $ord:expr, $off:expr) => {
    paste::paste! {
      match $ord {
        "be" => $a.[<get_ $ty _be>]($off).map(|x| x.to_be_bytes().to_vec()),
        _ => $a.[<get_ $ty _le>]($off).map(|x| x.to_be_bytes().to_vec()),
      }
    }
  };
}

macro_rules! rdv_case {
  ($a:ident, $ty:ident, $off:expr, $win:expr) => {
    paste::paste! {{
      let r = $a.[<get_ $ty _varint>]($off);
      // reference: the varint library on the window clipped at allocated() (its fidelity is assumed)
      let reference = match dbutils::leb128::[<decode_ $ty _varint>]($win) {
        Ok((n, x)) => json!({"k": "ok", "n": n, "v": bytes_json(&x.to_be_bytes())}),
        Err(_) => json!({"k": "err"}),
      };
      let res = match r {
        Ok((n, x)) => json!({"k": "ok", "n": n, "v": bytes_json(&x.to_be_bytes())}),
        Err(e) => err_res(e),
      };
      (res, reference)
    }}
  };
}

fn size_of_ty(ty: &str) -> usize {
  match ty {
    "u8" | "i8" => 1,
    "u16" | "i16" => 2,
    "u32" | "i32" => 4,
    "u64" | "i64" => 8,
    _ => 16,
  }
}

fn maxlen_of_ty(ty: &str) -> usize {
  match ty {
    "u16" | "i16" => 3,
    "u32" | "i32" => 5,
    "u64" | "i64" => 10,
    _ => 19,
  }
}

fn run<A: ArenaX>(d: &Value, out: &mut Out, workdir: &str) {
  let cfg = &d["cfg"];
  let id = d["id"].clone();
  let (arena, path) = match build::<A>(cfg, workdir) {
    Ok(x) => x,
    Err(e) => {
      out.emit(&json!({"ev": "reset", "id": id, "cfg": cfg, "ok": false, "err": e}));
      return;
    }
  };
  let a = &arena;
  let mut rng = Rng(cfg["seed"].as_u64().unwrap_or(1));
  let cap = a.capacity();
  // everything above the cursor starts as noise that *looks like data* (a reader that looks beyond allocated()
  // then returns it); the allocator zeroes what it hands out, drivers re-fill it
  if cfg["noise"].as_bool().unwrap_or(true) {
    for i in a.allocated()..cap {
      unsafe { a.raw_mut_ptr().add(i).write(rng.byte() | 1) };
    }
  }
  out.emit(&json!({"ev": "reset", "id": id, "cfg": cfg, "ok": true, "sync": A::SYNC,
    "alloc": a.allocated(), "cap": cap, "doff": a.data_offset(), "reserved": a.reserved_bytes()}));
  if let Some(ops) = d["ops"].as_array() {
    for (i, op) in ops.iter().enumerate() {
      let k = op["k"].as_str().unwrap_or("");
      let ty = op["ty"].as_str().unwrap_or("");
      let ord = op["ord"].as_str().unwrap_or("be");
      let off = offset_of(op);
      let mem = unsafe { std::slice::from_raw_parts(a.raw_ptr(), cap) };
      let allocated = a.allocated();
      let mut win: Vec<u8> = Vec::new();
      let mut extra = json!({});
      let res = match k {
        "alloc" => {
          let n = op["n"].as_u64().unwrap_or(0) as u32;
          match a.alloc_bytes(n) {
            Ok(mut b) => {
              let mode = op["fill"].as_str().unwrap_or("rand");
              for j in 0..b.capacity() {
                let v = match mode {
                  "cont" => 0x80 | rng.byte(),
                  _ => rng.byte(),
                };
                unsafe { b.as_mut_ptr().add(j).write(v) };
              }
              unsafe { b.detach() };
              json!({"k": "ok"})
            }
            Err(_) => json!({"k": "err"}),
          }
        }
        "poke" => {
          let at = op["at"].as_u64().unwrap_or(0) as usize;
          let bytes = json_bytes(&op["b"]);
          for (j, v) in bytes.iter().enumerate() {
            if at + j < cap {
              unsafe { a.raw_mut_ptr().add(at + j).write(*v) };
            }
          }
          json!({"k": "ok"})
        }
        "rd" => {
          let size = size_of_ty(ty);
          if off < cap {
            win = mem[off..(off + size).min(cap)].to_vec();
          }
          guarded(|| {
            let r: Result<Vec<u8>, Error> = match ty {
              "u8" => a.get_u8(off).map(|x| vec![x]),
              "i8" => a.get_i8(off).map(|x| vec![x as u8]),
              "u16" => rd_case!(a, u16, ord, off),
              "u32" => rd_case!(a, u32, ord, off),
              "u64" => rd_case!(a, u64, ord, off),
              "u128" => rd_case!(a, u128, ord, off),
              "i16" => rd_case!(a, i16, ord, off),
              "i32" => rd_case!(a, i32, ord, off),
              "i64" => rd_case!(a, i64, ord, off),
              "i128" => rd_case!(a, i128, ord, off),
              _ => return json!({"k": "baddriver"}),
            };
            match r {
              Ok(v) => json!({"k": "ok", "v": bytes_json(&v)}),
              Err(e) => err_res(e),
            }
          })
        }
        "rdv" => {
          let maxlen = maxlen_of_ty(ty);
          if off < cap {
            win = mem[off..(off + maxlen).min(cap)].to_vec();
          }
          let clipped: &[u8] = if off < allocated { &mem[off..(off + maxlen).min(allocated)] } else { &[] };
          let mut reference = json!({"k": "none"});
          let r = guarded(|| {
            let (res, rf) = match ty {
              "u16" => rdv_case!(a, u16, off, clipped),
              "u32" => rdv_case!(a, u32, off, clipped),
              "u64" => rdv_case!(a, u64, off, clipped),
              "u128" => rdv_case!(a, u128, off, clipped),
              "i16" => rdv_case!(a, i16, off, clipped),
              "i32" => rdv_case!(a, i32, off, clipped),
              "i64" => rdv_case!(a, i64, off, clipped),
              "i128" => rdv_case!(a, i128, off, clipped),
              _ => return json!({"k": "baddriver"}),
            };
            reference = rf;
            res
          });
          extra = json!({"ref": reference});
          r
        }
        "lens" => guarded(|| {
          json!({"k": "ok", "allocated_memory": a.allocated_memory().len(), "data": a.data().len(),
            "memory": a.memory().len()})
        }),
        _ => json!({"k": "baddriver"}),
      };
      let mut ev = json!({"ev": "op", "id": id, "i": i + 1, "op": op, "res": res, "alloc": a.allocated(),
        "cap": cap, "doff": a.data_offset(), "win": bytes_json(&win)});
      if let Some(r) = extra.get("ref") {
        ev["ref"] = r.clone();
      }
      out.emit(&ev);
    }
  }
  drop(arena);
  if let Some(p) = path {
    let _ = std::fs::remove_file(p);
  }
}

pub fn run_driver(d: &Value, out: &mut Out, workdir: &str) {
  match d["cfg"]["flavor"].as_str().unwrap_or("unsync") {
    "sync" => run::<sync::Arena>(d, out, workdir),
    _ => run::<unsync::Arena>(d, out, workdir),
  }
}
