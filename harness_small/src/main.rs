//! rvs — harness for the small machines of the rarena verification suite (C14 buffers, C15 arena readers,
//! C19 checksum). It drives the real code and logs ndjson; it never judges: every verdict is TLC's, on the log.
mod buf;
mod ck;
mod common;
mod rd;

fn main() {
  let args: Vec<String> = std::env::args().collect();
  if args.len() < 5 {
    eprintln!("usage: rvs <buf|rd|ck> <drivers.ndjson> <out.ndjson> <workdir> [first-driver-index]");
    std::process::exit(2);
  }
  common::quiet_panics();
  let skip: usize = args.get(5).and_then(|s| s.parse().ok()).unwrap_or(0);
  let drivers = common::read_drivers(&args[2], skip);
  let mut out = common::Out::append(&args[3]);
  let f: fn(&serde_json::Value, &mut common::Out, &str) = match args[1].as_str() {
    "buf" => buf::run_driver,
    "rd" => rd::run_driver,
    "ck" => ck::run_driver,
    other => {
      eprintln!("unknown subcommand {other}");
      std::process::exit(2);
    }
  };
  for d in drivers.iter() {
    f(d, &mut out, &args[4]);
    // the driver's handles and arena are gone: a death after this line is not this driver's
    out.emit(&serde_json::json!({"ev": "end", "id": d["id"]}));
  }
}
