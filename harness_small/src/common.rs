//! Shared helpers: arena construction, saturated numbers, run-length encoded memory, line-flushed output.

use rarena_allocator::{Allocator, Error, Freelist, Options, sync, unsync};
use serde_json::{Value, json};
use std::io::Write;

pub const SAT: u64 = 1 << 30;

/// TLC integers are 32-bit: every logged number is saturated at 2^30 (all arenas are far smaller).
#[inline]
pub fn sat(x: u64) -> u64 {
  x.min(SAT)
}

/// Run-length encoding `[lo, len, value]` of `mem` with the bytes of `[lo, hi)` replaced by zero
/// (the buffer under test is logged separately, byte by byte).
pub fn rle_masked(mem: &[u8], lo: usize, hi: usize) -> Value {
  let at = |i: usize| if i >= lo && i < hi { 0u8 } else { mem[i] };
  let mut out: Vec<Value> = Vec::new();
  let mut i = 0usize;
  while i < mem.len() {
    let v = at(i);
    let mut j = i + 1;
    while j < mem.len() && at(j) == v {
      j += 1;
    }
    out.push(json!([i, j - i, v]));
    i = j;
  }
  Value::Array(out)
}

pub fn bytes_json(b: &[u8]) -> Value {
  Value::Array(b.iter().map(|x| json!(*x)).collect())
}

pub fn json_bytes(v: &Value) -> Vec<u8> {
  v.as_array()
    .map(|a| a.iter().map(|x| x.as_u64().unwrap_or(0) as u8).collect())
    .unwrap_or_default()
}

pub trait ArenaX: Allocator + 'static {
  const SYNC: bool;
}
impl ArenaX for sync::Arena {
  const SYNC: bool = true;
}
impl ArenaX for unsync::Arena {
  const SYNC: bool = false;
}

pub fn options_of(cfg: &Value) -> Options {
  let kind = match cfg["kind"].as_str().unwrap_or("opt") {
    "none" => Freelist::None,
    "pes" => Freelist::Pessimistic,
    _ => Freelist::Optimistic,
  };
  Options::new()
    .with_capacity(cfg["arena_cap"].as_u64().unwrap() as u32)
    .with_reserved(cfg["reserved"].as_u64().unwrap_or(0) as u32)
    .with_freelist(kind)
    .with_minimum_segment_size(cfg["minseg"].as_u64().unwrap_or(8) as u32)
    .with_unify(cfg["unify"].as_bool().unwrap_or(false))
    .with_maximum_alignment(cfg["maxalign"].as_u64().unwrap_or(16) as usize)
}

pub fn build<A: ArenaX>(cfg: &Value, workdir: &str) -> Result<(A, Option<std::path::PathBuf>), String> {
  let opts = options_of(cfg);
  match cfg["backend"].as_str().unwrap_or("vec") {
    "vec" => opts.alloc::<A>().map(|a| (a, None)).map_err(|e| match e {
      Error::InsufficientSpace { .. } => "InsufficientSpace".to_string(),
      other => format!("{other:?}"),
    }),
    "anon" => opts
      .map_anon::<A>()
      .map(|a| (a, None))
      .map_err(|e| format!("{:?}", e.kind())),
    "file" => {
      let p = scratch_path(workdir, "small");
      let r = unsafe {
        opts
          .with_create_new(true)
          .with_read(true)
          .with_write(true)
          .map_mut::<A, _>(&p)
      };
      match r {
        Ok(a) => Ok((a, Some(p))),
        Err(e) => {
          let _ = std::fs::remove_file(&p);
          Err(format!("{:?}", e.kind()))
        }
      }
    }
    other => panic!("bad backend {other}"),
  }
}

pub fn scratch_path(dir: &str, tag: &str) -> std::path::PathBuf {
  use std::sync::atomic::{AtomicU64, Ordering};
  static N: AtomicU64 = AtomicU64::new(0);
  let n = N.fetch_add(1, Ordering::Relaxed);
  let p = std::path::Path::new(dir);
  let _ = std::fs::create_dir_all(p);
  p.join(format!("{}-{}-{}.arena", tag, std::process::id(), n))
}

/// ndjson output, flushed after every line: if the process dies, everything before the fatal call is on disk.
pub struct Out {
  f: std::fs::File,
}

impl Out {
  pub fn append(path: &str) -> Self {
    let f = std::fs::OpenOptions::new()
      .create(true)
      .append(true)
      .open(path)
      .expect("open output");
    Out { f }
  }
  pub fn emit(&mut self, v: &Value) {
    let mut s = serde_json::to_string(v).unwrap();
    s.push('\n');
    self.f.write_all(s.as_bytes()).unwrap();
  }
}

/// The drivers from line `skip` on (one per line; the lines before are not even parsed: restarts are cheap).
pub fn read_drivers(path: &str, skip: usize) -> Vec<Value> {
  let s = std::fs::read_to_string(path).expect("read drivers");
  s.lines()
    .skip(skip)
    .filter(|l| !l.trim().is_empty())
    .map(|l| serde_json::from_str(l).expect("driver json"))
    .collect()
}

pub fn quiet_panics() {
  std::panic::set_hook(Box::new(|_| {}));
}

/// Run one call of the code under test; a panic is a result kind, not a harness failure.
pub fn guarded<F: FnOnce() -> Value>(f: F) -> Value {
  match std::panic::catch_unwind(std::panic::AssertUnwindSafe(f)) {
    Ok(v) => v,
    Err(e) => {
      let msg = if let Some(s) = e.downcast_ref::<&str>() {
        s.to_string()
      } else if let Some(s) = e.downcast_ref::<String>() {
        s.clone()
      } else {
        "?".to_string()
      };
      let msg: String = msg.chars().take(80).collect();
      json!({"k": "panic", "msg": msg})
    }
  }
}

/// Deterministic byte stream (splitmix64) for contents.
pub struct Rng(pub u64);
impl Rng {
  pub fn next(&mut self) -> u64 {
    self.0 = self.0.wrapping_add(0x9E3779B97F4A7C15);
    let mut z = self.0;
    z = (z ^ (z >> 30)).wrapping_mul(0xBF58476D1CE4E5B9);
    z = (z ^ (z >> 27)).wrapping_mul(0x94D049BB133111EB);
    z ^ (z >> 31)
  }
  pub fn byte(&mut self) -> u8 {
    (self.next() >> 24) as u8
  }
}

// ---- the (size, align) menu for put::<T> / put_aligned::<T> / align_to::<T> / alloc_aligned_bytes::<T> ----
#[repr(C, align(2))]
#[derive(Clone, Copy)]
pub struct A6x2(pub [u8; 6]);
#[repr(C, align(16))]
#[derive(Clone, Copy)]
pub struct A16x16(pub [u8; 16]);
#[repr(C, align(16))]
#[derive(Clone, Copy)]
pub struct A32x16(pub [u8; 32]);

#[macro_export]
macro_rules! with_type {
  ($s:expr, $a:expr, $f:ident, $($args:expr),*) => {
    match ($s, $a) {
      (0, 1) => Some($f::<(), _>($($args),*)),
      (1, 1) => Some($f::<u8, _>($($args),*)),
      (3, 1) => Some($f::<[u8; 3], _>($($args),*)),
      (5, 1) => Some($f::<[u8; 5], _>($($args),*)),
      (2, 2) => Some($f::<u16, _>($($args),*)),
      (6, 2) => Some($f::<$crate::common::A6x2, _>($($args),*)),
      (4, 4) => Some($f::<u32, _>($($args),*)),
      (12, 4) => Some($f::<[u32; 3], _>($($args),*)),
      (8, 8) => Some($f::<u64, _>($($args),*)),
      (24, 8) => Some($f::<[u64; 3], _>($($args),*)),
      (16, 16) => Some($f::<$crate::common::A16x16, _>($($args),*)),
      (32, 16) => Some($f::<$crate::common::A32x16, _>($($args),*)),
      _ => None,
    }
  };
}
