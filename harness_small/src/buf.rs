//! C14 driver: every put_*/write_*/get_*/put_slice/put/put_aligned/align_to/set_len/varint method of the real
//! `BytesRefMut` / `BytesMut`, on buffers from fresh, aligned and recycled space.
//!
//! One event per call: the arguments, the result, `len`, the bytes of the buffer `[offset, offset+capacity)` and
//! the run-length encoded memory of the whole arena with the buffer masked out. Integer values travel as byte
//! arrays in *significance order* (most significant first), so the trace spec never needs wide arithmetic.

use crate::common::*;
use crate::with_type;
use rarena_allocator::{Buffer, BytesMut, BytesRefMut, Error, sync, unsync};
use serde_json::{Value, json};

fn ok() -> Value {
  json!({"k": "ok"})
}
fn err() -> Value {
  json!({"k": "err"})
}
fn precond() -> Value {
  // the documented precondition of an `unsafe` / panicking variant does not hold: the call is not made
  json!({"k": "precond"})
}
fn bad() -> Value {
  json!({"k": "baddriver"})
}
fn unit_res(ok_: bool) -> Value {
  if ok_ { ok() } else { err() }
}

macro_rules! int_case {
  ($b:ident, $ty:ident, $k:expr, $ord:expr, $api:expr, $v:expr) => {
    paste::paste! {{
      const SIZE: usize = core::mem::size_of::<$ty>();
      match $k {
        "put" => {
          if $v.len() != SIZE {
            return bad();
          }
          let mut a = [0u8; SIZE];
          a.copy_from_slice(&$v);
          let val = <$ty>::from_be_bytes(a);
          let room = $b.len() + SIZE <= $b.capacity();
          match ($ord, $api) {
            ("be", "put") => unit_res($b.[<put_ $ty _be>](val).is_ok()),
            ("le", "put") => unit_res($b.[<put_ $ty _le>](val).is_ok()),
            ("ne", "put") => unit_res($b.[<put_ $ty _ne>](val).is_ok()),
            ("be", "write") => unit_res($b.[<write_ $ty _be>](val).is_ok()),
            ("le", "write") => unit_res($b.[<write_ $ty _le>](val).is_ok()),
            ("ne", "write") => unit_res($b.[<write_ $ty _ne>](val).is_ok()),
            ("be", "unchecked") => if room { unsafe { $b.[<put_ $ty _be_unchecked>](val) }; ok() } else { precond() },
            ("le", "unchecked") => if room { unsafe { $b.[<put_ $ty _le_unchecked>](val) }; ok() } else { precond() },
            ("ne", "unchecked") => if room { unsafe { $b.[<put_ $ty _ne_unchecked>](val) }; ok() } else { precond() },
            _ => bad(),
          }
        }
        "get" => {
          let has = $b.len() >= SIZE;
          let r: Option<Option<$ty>> = match ($ord, $api) {
            ("be", "get") => Some($b.[<get_ $ty _be>]().ok()),
            ("le", "get") => Some($b.[<get_ $ty _le>]().ok()),
            ("ne", "get") => Some($b.[<get_ $ty _ne>]().ok()),
            ("be", "unchecked") => if has { Some(Some(unsafe { $b.[<get_ $ty _be_unchecked>]() })) } else { None },
            ("le", "unchecked") => if has { Some(Some(unsafe { $b.[<get_ $ty _le_unchecked>]() })) } else { None },
            ("ne", "unchecked") => if has { Some(Some(unsafe { $b.[<get_ $ty _ne_unchecked>]() })) } else { None },
            _ => return bad(),
          };
          match r {
            None => precond(),
            Some(Some(x)) => json!({"k": "ok", "v": bytes_json(&x.to_be_bytes())}),
            Some(None) => err(),
          }
        }
        _ => bad(),
      }
    }}
  };
}

macro_rules! varint_case {
  ($b:ident, $ty:ident, $k:expr, $api:expr, $v:expr) => {
    paste::paste! {{
      const SIZE: usize = core::mem::size_of::<$ty>();
      match $k {
        "putv" => {
          if $v.len() != SIZE {
            return bad();
          }
          let mut a = [0u8; SIZE];
          a.copy_from_slice(&$v);
          let val = <$ty>::from_be_bytes(a);
          // reference length from the varint library itself (its fidelity is assumed, see DESIGN section 8)
          let need = dbutils::leb128::[<encoded_ $ty _varint_len>](val);
          let room = $b.len() + need <= $b.capacity();
          let r: Option<Option<usize>> = match $api {
            "put" => Some($b.[<put_ $ty _varint>](val).ok()),
            "write" => Some($b.[<write_ $ty _varint>](val).ok()),
            "unchecked" => if room { Some(Some($b.[<put_ $ty _varint_unchecked>](val))) } else { None },
            _ => return bad(),
          };
          match r {
            None => precond(),
            Some(Some(n)) => json!({"k": "ok", "n": n, "need": need}),
            Some(None) => json!({"k": "err", "need": need}),
          }
        }
        "getv" => match $b.[<get_ $ty _varint>]() {
          Ok((n, x)) => json!({"k": "ok", "n": n, "v": bytes_json(&x.to_be_bytes())}),
          Err(_) => err(),
        },
        _ => bad(),
      }
    }}
  };
}

macro_rules! buf_ops {
  ($modn:ident, $B:ty) => {
    pub mod $modn {
      use super::*;

      /// `start` = (address of the buffer's own first byte, its offset in the arena): the pointer is reported as
      /// an arena offset *through the buffer's own pointer* (a zero-capacity handle has no memory behind it).
      fn ptr_res<T>(p: *const T, start: (usize, usize)) -> Value {
        let addr = p as usize;
        let al = core::mem::align_of::<T>();
        if core::mem::size_of::<T>() == 0 {
          return json!({"k": "ok", "zst": true, "poff": 0, "pmod": 0});
        }
        json!({"k": "ok", "zst": false, "poff": sat((addr.wrapping_sub(start.0).wrapping_add(start.1)) as u64), "pmod": addr % al})
      }

      fn align_t<T, A: ArenaX>(b: &mut $B, _base: usize) -> Value {
        let start = (b.as_mut_ptr() as usize, b.offset());
        match b.align_to::<T>() {
          Ok(p) => ptr_res::<T>(p.as_ptr(), start),
          Err(_) => err(),
        }
      }

      fn value_of<T: Copy>(bytes: &[u8]) -> Option<T> {
        if bytes.len() != core::mem::size_of::<T>() {
          return None;
        }
        Some(unsafe { core::ptr::read_unaligned(bytes.as_ptr().cast::<T>()) })
      }

      fn put_t<T: Copy, A: ArenaX>(b: &mut $B, _base: usize, bytes: &[u8]) -> Value {
        let Some(v) = value_of::<T>(bytes) else { return bad() };
        let start = (b.as_mut_ptr() as usize, b.offset());
        // documented safety contract of `put`: align_to first (the position must be aligned for T)
        let pos = b.as_mut_ptr() as usize + b.len();
        if core::mem::size_of::<T>() != 0 && pos % core::mem::align_of::<T>() != 0 {
          return precond();
        }
        match unsafe { b.put::<T>(v) } {
          Ok(r) => ptr_res::<T>(r as *const T, start),
          Err(_) => err(),
        }
      }

      fn putal_t<T: Copy, A: ArenaX>(b: &mut $B, _base: usize, bytes: &[u8]) -> Value {
        let Some(v) = value_of::<T>(bytes) else { return bad() };
        let start = (b.as_mut_ptr() as usize, b.offset());
        match unsafe { b.put_aligned::<T>(v) } {
          Ok(r) => ptr_res::<T>(r as *const T, start),
          Err(_) => err(),
        }
      }

      pub fn apply<A: ArenaX>(b: &mut $B, op: &Value, base: usize) -> Value {
        let k = op["k"].as_str().unwrap_or("");
        let ty = op["ty"].as_str().unwrap_or("");
        let ord = op["ord"].as_str().unwrap_or("be");
        let api = op["api"].as_str().unwrap_or(if k == "get" { "get" } else { "put" });
        let v = json_bytes(&op["v"]);
        match k {
          "put" | "get" => match ty {
            "u8" | "i8" => {
              if k == "put" {
                if v.len() != 1 {
                  return bad();
                }
                let room = b.len() + 1 <= b.capacity();
                match (ty, api) {
                  ("u8", "put") => unit_res(b.put_u8(v[0]).is_ok()),
                  ("i8", "put") => unit_res(b.put_i8(v[0] as i8).is_ok()),
                  ("u8", "unchecked") => if room { unsafe { b.put_u8_unchecked(v[0]) }; ok() } else { precond() },
                  ("i8", "unchecked") => if room { unsafe { b.put_i8_unchecked(v[0] as i8) }; ok() } else { precond() },
                  _ => bad(),
                }
              } else {
                let has = b.len() >= 1;
                let r: Option<Option<u8>> = match (ty, api) {
                  ("u8", "get") => Some(b.get_u8().ok()),
                  ("i8", "get") => Some(b.get_i8().ok().map(|x| x as u8)),
                  ("u8", "unchecked") => if has { Some(Some(unsafe { b.get_u8_unchecked() })) } else { None },
                  ("i8", "unchecked") => if has { Some(Some(unsafe { b.get_i8_unchecked() } as u8)) } else { None },
                  _ => return bad(),
                };
                match r {
                  None => precond(),
                  Some(Some(x)) => json!({"k": "ok", "v": [x]}),
                  Some(None) => err(),
                }
              }
            }
            "u16" => int_case!(b, u16, k, ord, api, v),
            "u32" => int_case!(b, u32, k, ord, api, v),
            "u64" => int_case!(b, u64, k, ord, api, v),
            "usize" => int_case!(b, usize, k, ord, api, v),
            "u128" => int_case!(b, u128, k, ord, api, v),
            "i16" => int_case!(b, i16, k, ord, api, v),
            "i32" => int_case!(b, i32, k, ord, api, v),
            "i64" => int_case!(b, i64, k, ord, api, v),
            "isize" => int_case!(b, isize, k, ord, api, v),
            "i128" => int_case!(b, i128, k, ord, api, v),
            _ => bad(),
          },
          "putv" | "getv" => match ty {
            "u16" => varint_case!(b, u16, k, api, v),
            "u32" => varint_case!(b, u32, k, api, v),
            "u64" => varint_case!(b, u64, k, api, v),
            "u128" => varint_case!(b, u128, k, api, v),
            "i16" => varint_case!(b, i16, k, api, v),
            "i32" => varint_case!(b, i32, k, api, v),
            "i64" => varint_case!(b, i64, k, api, v),
            "i128" => varint_case!(b, i128, k, api, v),
            _ => bad(),
          },
          "slice" => {
            let s = json_bytes(&op["b"]);
            let room = b.len() + s.len() <= b.capacity();
            match api {
              "put" => unit_res(b.put_slice(&s).is_ok()),
              "iowrite" => match std::io::Write::write(b, &s) {
                Ok(n) => json!({"k": "ok", "n": n}),
                Err(_) => err(),
              },
              "unchecked" => if room { unsafe { b.put_slice_unchecked(&s) }; ok() } else { precond() },
              _ => bad(),
            }
          }
          "getslice" => {
            let n = op["n"].as_u64().unwrap_or(0) as usize;
            match b.get_slice(n) {
              Ok(s) => json!({"k": "ok", "v": bytes_json(s)}),
              Err(_) => err(),
            }
          }
          "setlen" => {
            let n = op["n"].as_u64().unwrap_or(0) as usize;
            b.set_len(n);
            ok()
          }
          "align" | "putt" | "putal" => {
            let s = op["s"].as_u64().unwrap_or(0);
            let a = op["a"].as_u64().unwrap_or(1);
            let bytes = json_bytes(&op["b"]);
            let r = match k {
              "align" => with_type!(s, a, align_t, b, base),
              "putt" => with_type!(s, a, put_t, b, base, &bytes),
              _ => with_type!(s, a, putal_t, b, base, &bytes),
            };
            r.unwrap_or_else(bad)
          }
          _ => bad(),
        }
      }
    }
  };
}

buf_ops!(refmut, BytesRefMut<'static, A>);
buf_ops!(owned, BytesMut<A>);

enum Holder<A: ArenaX> {
  Ref(BytesRefMut<'static, A>),
  Own(BytesMut<A>),
}

impl<A: ArenaX> Holder<A> {
  fn meta(&self) -> [usize; 4] {
    match self {
      Holder::Ref(b) => [b.buffer_offset(), b.buffer_capacity(), b.offset(), b.capacity()],
      Holder::Own(b) => [b.buffer_offset(), b.buffer_capacity(), b.offset(), b.capacity()],
    }
  }
  fn len(&self) -> usize {
    match self {
      Holder::Ref(b) => b.len(),
      Holder::Own(b) => b.len(),
    }
  }
  fn apply(&mut self, op: &Value, base: usize) -> Value {
    match self {
      Holder::Ref(b) => guarded(|| refmut::apply::<A>(b, op, base)),
      Holder::Own(b) => guarded(|| owned::apply::<A>(b, op, base)),
    }
  }
}

fn alloc_al<T, A: ArenaX>(arena: &'static A, n: u32, owned: bool) -> Result<Holder<A>, Error> {
  if owned {
    arena.alloc_aligned_bytes_owned::<T>(n).map(Holder::Own)
  } else {
    arena.alloc_aligned_bytes::<T>(n).map(Holder::Ref)
  }
}

fn get_buf<A: ArenaX>(arena: &'static A, cfg: &Value) -> Result<Holder<A>, String> {
  let n = cfg["n"].as_u64().unwrap_or(0) as u32;
  let owned = cfg["owned"].as_bool().unwrap_or(false);
  let r = if let Some(ta) = cfg["ta"].as_array() {
    let (s, a) = (ta[0].as_u64().unwrap(), ta[1].as_u64().unwrap());
    match with_type!(s, a, alloc_al, arena, n, owned) {
      Some(r) => r,
      None => return Err("bad type".into()),
    }
  } else if owned {
    arena.alloc_bytes_owned(n).map(Holder::Own)
  } else {
    arena.alloc_bytes(n).map(Holder::Ref)
  };
  r.map_err(|e| format!("{e:?}").chars().take(60).collect())
}

fn fill(b: &mut BytesRefMut<'static, impl ArenaX>, pat: u8) {
  let n = b.capacity();
  if n > 0 {
    unsafe { std::ptr::write_bytes(b.as_mut_ptr(), pat, n) }
  }
}

fn run<A: ArenaX>(d: &Value, out: &mut Out, workdir: &str) {
  let cfg = &d["cfg"];
  let id = d["id"].clone();
  let (arena_box, path) = match build::<A>(cfg, workdir) {
    Ok((a, p)) => (Box::new(a), p),
    Err(e) => {
      out.emit(&json!({"ev": "reset", "id": id, "cfg": cfg, "ok": false, "err": e}));
      return;
    }
  };
  let arena: &'static A = unsafe { &*(&*arena_box as *const A) };
  let mut keep: Vec<BytesRefMut<'static, A>> = Vec::new();
  let setup = (|| -> Result<Holder<A>, String> {
    let e2s = |e: Error| -> String { format!("{e:?}").chars().take(60).collect() };
    let pre = cfg["pre"].as_u64().unwrap_or(0) as u32;
    if pre > 0 {
      let mut p = arena.alloc_bytes(pre).map_err(e2s)?;
      fill(&mut p, 0xA1);
      keep.push(p);
    }
    if cfg["source"].as_str() == Some("recycled") {
      let m = cfg["m"].as_u64().unwrap_or(0) as u32;
      let mut victim = arena.alloc_bytes(m).map_err(e2s)?;
      fill(&mut victim, 0xA4);
      let mut post = arena.alloc_bytes(24).map_err(e2s)?;
      fill(&mut post, 0xA2);
      keep.push(post);
      let rem = arena.remaining() as u32;
      if rem > 0 {
        let mut rest = arena.alloc_bytes(rem).map_err(e2s)?;
        fill(&mut rest, 0xA3);
        keep.push(rest);
      }
      drop(victim);
      get_buf(arena, cfg)
    } else {
      let b = get_buf(arena, cfg)?;
      let mut post = arena.alloc_bytes(24).map_err(e2s)?;
      fill(&mut post, 0xA2);
      keep.push(post);
      Ok(b)
    }
  })();
  let mut h = match setup {
    Ok(h) => h,
    Err(e) => {
      out.emit(&json!({"ev": "reset", "id": id, "cfg": cfg, "ok": false, "err": e}));
      drop(keep);
      drop(arena_box);
      if let Some(p) = path {
        let _ = std::fs::remove_file(p);
      }
      return;
    }
  };
  let [mo, ms, po, cap] = h.meta();
  let base = arena.raw_ptr() as usize;
  let acap = arena.capacity();
  if cfg["prefill"].as_bool().unwrap_or(true) && cap > 0 {
    unsafe { std::ptr::write_bytes(arena.raw_mut_ptr().add(po), 0xCC, cap) };
  }
  let snapshot = |h: &Holder<A>| -> (usize, Value, Value) {
    let mem = unsafe { std::slice::from_raw_parts(arena.raw_ptr(), acap) };
    let (lo, hi) = (po.min(acap), (po + cap).min(acap));
    (h.len(), bytes_json(&mem[lo..hi]), rle_masked(mem, lo, hi))
  };
  let (len, bufb, outm) = snapshot(&h);
  out.emit(&json!({"ev": "reset", "id": id, "cfg": cfg, "ok": true, "sync": A::SYNC,
    "mo": mo, "ms": ms, "po": po, "cap": cap, "base_mod": base % 64, "acap": acap,
    "native_le": cfg!(target_endian = "little"), "len": len, "buf": bufb, "out": outm}));
  if let Some(ops) = d["ops"].as_array() {
    for (i, op) in ops.iter().enumerate() {
      let res = h.apply(op, base);
      let (len, bufb, outm) = snapshot(&h);
      out.emit(&json!({"ev": "op", "id": id, "i": i + 1, "op": op, "res": res, "len": len, "buf": bufb, "out": outm}));
    }
  }
  drop(h);
  drop(keep);
  drop(arena_box);
  if let Some(p) = path {
    let _ = std::fs::remove_file(p);
  }
}

pub fn run_driver(d: &Value, out: &mut Out, workdir: &str) {
  match d["cfg"]["flavor"].as_str().unwrap_or("unsync") {
    "sync" => run::<sync::Arena>(d, out, workdir),
    _ => run::<unsync::Arena>(d, out, workdir),
  }
}
