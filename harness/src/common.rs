//! Shared helpers of the harness: memory run-length encoding, handle abstraction, type menu.
//! The harness only *drives and logs*; every judgement is made by TLC on the logged trace.

use rarena_allocator::{Allocator, Buffer, BytesMut, BytesRefMut, Error, Owned, RefMut};
use serde_json::{Value, json};
use std::cell::RefCell;

pub const SAT: u64 = 1 << 30;

/// TLC integers are 32-bit: every logged number is saturated at 2^30 (all configurations have cap < 2^30).
#[inline]
pub fn sat(x: u64) -> u64 {
  x.min(SAT)
}

pub fn sat_i(x: i128) -> i64 {
  x.clamp(-(SAT as i128), SAT as i128) as i64
}

/// Run-length encoding of a byte slice: `[lo, len, value]`.
pub fn rle(mem: &[u8]) -> Value {
  let mut out: Vec<Value> = Vec::new();
  let mut i = 0usize;
  while i < mem.len() {
    let v = mem[i];
    let mut j = i + 1;
    while j < mem.len() && mem[j] == v {
      j += 1;
    }
    out.push(json!([i, j - i, v]));
    i = j;
  }
  Value::Array(out)
}

pub fn pattern(h: u32) -> u8 {
  (((h - 1) % 250) + 1) as u8
}

pub const RESERVED_PATTERN: u8 = 0xEE;

pub fn err_kind(e: &Error) -> &'static str {
  match e {
    Error::InsufficientSpace { .. } => "err_space",
    Error::ReadOnly => "err_ro",
    _ => "err_other",
  }
}

/// What the harness can do with any handle returned by the arena.
pub trait AnyHandle {
  /// `[buffer_offset, buffer_capacity, offset, capacity]`
  fn meta(&self) -> [u64; 4];
  /// write `pat` over the whole accessible range *through the handle's own pointer*
  fn fill(&mut self, pat: u8);
  fn detach_h(&mut self);
  /// address of the accessible range as the handle reports it (None for zero-sized handles)
  fn addr(&mut self) -> Option<usize>;
  fn is_owned(&self) -> bool;
}

impl<A: Allocator> AnyHandle for BytesRefMut<'static, A> {
  fn meta(&self) -> [u64; 4] {
    [
      self.buffer_offset() as u64,
      self.buffer_capacity() as u64,
      self.offset() as u64,
      self.capacity() as u64,
    ]
  }
  fn fill(&mut self, pat: u8) {
    let n = self.capacity();
    if n > 0 {
      unsafe { std::ptr::write_bytes(self.as_mut_ptr(), pat, n) }
    }
  }
  fn detach_h(&mut self) {
    unsafe { self.detach() }
  }
  fn addr(&mut self) -> Option<usize> {
    if self.capacity() == 0 {
      None
    } else {
      Some(self.as_mut_ptr() as usize)
    }
  }
  fn is_owned(&self) -> bool {
    false
  }
}

impl<A: Allocator> AnyHandle for BytesMut<A> {
  fn meta(&self) -> [u64; 4] {
    [
      self.buffer_offset() as u64,
      self.buffer_capacity() as u64,
      self.offset() as u64,
      self.capacity() as u64,
    ]
  }
  fn fill(&mut self, pat: u8) {
    let n = self.capacity();
    if n > 0 {
      unsafe { std::ptr::write_bytes(self.as_mut_ptr(), pat, n) }
    }
  }
  fn detach_h(&mut self) {
    unsafe { self.detach() }
  }
  fn addr(&mut self) -> Option<usize> {
    if self.capacity() == 0 {
      None
    } else {
      Some(self.as_mut_ptr() as usize)
    }
  }
  fn is_owned(&self) -> bool {
    true
  }
}

impl<T: 'static, A: Allocator> AnyHandle for RefMut<'static, T, A> {
  fn meta(&self) -> [u64; 4] {
    [
      self.buffer_offset() as u64,
      self.buffer_capacity() as u64,
      self.offset() as u64,
      self.capacity() as u64,
    ]
  }
  fn fill(&mut self, pat: u8) {
    let n = std::mem::size_of::<T>();
    if n > 0 && !std::mem::needs_drop::<T>() {
      unsafe { std::ptr::write_bytes(self.as_mut_ptr().as_ptr() as *mut u8, pat, n) }
    }
  }
  fn detach_h(&mut self) {
    unsafe { self.detach() }
  }
  fn addr(&mut self) -> Option<usize> {
    if std::mem::size_of::<T>() == 0 || std::mem::needs_drop::<T>() {
      None
    } else {
      Some(self.as_mut_ptr().as_ptr() as usize)
    }
  }
  fn is_owned(&self) -> bool {
    false
  }
}

impl<T: 'static, A: Allocator> AnyHandle for Owned<T, A> {
  fn meta(&self) -> [u64; 4] {
    [
      self.buffer_offset() as u64,
      self.buffer_capacity() as u64,
      self.offset() as u64,
      self.capacity() as u64,
    ]
  }
  fn fill(&mut self, pat: u8) {
    let n = std::mem::size_of::<T>();
    if n > 0 && !std::mem::needs_drop::<T>() {
      unsafe { std::ptr::write_bytes(self.as_mut_ptr().as_ptr() as *mut u8, pat, n) }
    }
  }
  fn detach_h(&mut self) {
    unsafe { self.detach() }
  }
  fn addr(&mut self) -> Option<usize> {
    if std::mem::size_of::<T>() == 0 || std::mem::needs_drop::<T>() {
      None
    } else {
      Some(self.as_mut_ptr().as_ptr() as usize)
    }
  }
  fn is_owned(&self) -> bool {
    true
  }
}

// ---- the type menu (size, align) shared with spec/Common.tla ----
#[repr(C, align(16))]
#[derive(Clone, Copy)]
pub struct A16x16(pub [u8; 16]);
#[repr(C, align(16))]
#[derive(Clone, Copy)]
pub struct A64x16(pub [u8; 64]);
#[repr(C, align(64))]
#[derive(Clone, Copy)]
pub struct A64x64(pub [u8; 64]);
#[repr(C, align(16))]
#[derive(Clone, Copy)]
pub struct A32x16(pub [u8; 32]);
#[repr(C, align(2))]
#[derive(Clone, Copy)]
pub struct A6x2(pub [u8; 6]);

/// Dispatch on (size, align) to a generic function `$f::<T, A>(args)`.
#[macro_export]
macro_rules! with_type {
  ($s:expr, $a:expr, $f:ident, $A:ty, $($args:expr),*) => {
    match ($s, $a) {
      (0, 1) => Some($f::<(), $A>($($args),*)),
      // zero-sized types that still have an alignment
      (0, 2) => Some($f::<[u16; 0], $A>($($args),*)),
      (0, 8) => Some($f::<[u64; 0], $A>($($args),*)),
      (0, 16) => Some($f::<[$crate::common::A16x16; 0], $A>($($args),*)),
      (1, 1) => Some($f::<u8, $A>($($args),*)),
      (2, 1) => Some($f::<[u8; 2], $A>($($args),*)),
      (3, 1) => Some($f::<[u8; 3], $A>($($args),*)),
      (5, 1) => Some($f::<[u8; 5], $A>($($args),*)),
      (9, 1) => Some($f::<[u8; 9], $A>($($args),*)),
      (17, 1) => Some($f::<[u8; 17], $A>($($args),*)),
      (64, 1) => Some($f::<[u8; 64], $A>($($args),*)),
      (2, 2) => Some($f::<u16, $A>($($args),*)),
      (6, 2) => Some($f::<$crate::common::A6x2, $A>($($args),*)),
      (4, 4) => Some($f::<u32, $A>($($args),*)),
      (12, 4) => Some($f::<[u32; 3], $A>($($args),*)),
      (8, 8) => Some($f::<u64, $A>($($args),*)),
      (16, 8) => Some($f::<[u64; 2], $A>($($args),*)),
      (24, 8) => Some($f::<[u64; 3], $A>($($args),*)),
      (40, 8) => Some($f::<[u64; 5], $A>($($args),*)),
      (16, 16) => Some($f::<$crate::common::A16x16, $A>($($args),*)),
      (32, 16) => Some($f::<$crate::common::A32x16, $A>($($args),*)),
      (64, 16) => Some($f::<$crate::common::A64x16, $A>($($args),*)),
      (64, 64) => Some($f::<$crate::common::A64x64, $A>($($args),*)),
      _ => None,
    }
  };
}

// ---- API event recording (Dealloc / Zero / Unmount) ----
thread_local! {
  pub static API_LOG: RefCell<Vec<Value>> = const { RefCell::new(Vec::new()) };
}

pub fn api_hook(e: &rarena_allocator::verif::ApiEvent) {
  use rarena_allocator::verif::ApiEvent::*;
  let v = match *e {
    Dealloc { sync, offset, size } => {
      json!({"k": "dealloc", "sync": sync, "off": sat(offset as u64), "size": sat(size as u64)})
    }
    Unmount => json!({"k": "unmount"}),
    Zero { offset, len } => json!({"k": "zero", "off": sat(offset as u64), "len": sat(len as u64)}),
  };
  API_LOG.with(|l| l.borrow_mut().push(v));
}

pub fn take_api() -> Vec<Value> {
  API_LOG.with(|l| std::mem::take(&mut *l.borrow_mut()))
}

pub fn noop_before(_: &rarena_allocator::verif::AtomicEvent) {}
pub fn noop_after(_: &rarena_allocator::verif::AtomicEvent, _: u64, _: bool) {}

pub fn install_api_only_hooks() {
  rarena_allocator::verif::set_hooks(Some(rarena_allocator::verif::Hooks {
    before: noop_before,
    after: noop_after,
    api: api_hook,
  }));
}

/// A unique scratch path under `dir`.
pub fn scratch_path(dir: &str, tag: &str) -> std::path::PathBuf {
  use std::sync::atomic::{AtomicU64, Ordering};
  static N: AtomicU64 = AtomicU64::new(0);
  let n = N.fetch_add(1, Ordering::Relaxed);
  let p = std::path::Path::new(dir);
  let _ = std::fs::create_dir_all(p);
  p.join(format!("{}-{}-{}.arena", tag, std::process::id(), n))
}
