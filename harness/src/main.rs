//! rvh — the verification harness for al8n/rarena. Drives the real code and logs; never judges.
mod common;
mod conc;
mod flushd;
mod handles;
mod locks;
mod openf;
mod probe;
mod seq;

fn main() {
  let args: Vec<String> = std::env::args().collect();
  if args.len() < 2 {
    eprintln!("usage: rvh <seq|...> args");
    std::process::exit(2);
  }
  match args[1].as_str() {
    "seq" => seq::run(&args[2..]),
    "conc" => conc::run(&args[2..]),
    "open" => openf::run(&args[2..]),
    "probe" => probe::run(&args[2..]),
    "handles" => handles::run(&args[2..]),
    "flush" => flushd::run(&args[2..]),
    "locks" => locks::run(&args[2..]),
    other => {
      eprintln!("unknown subcommand {other}");
      std::process::exit(2);
    }
  }
}
