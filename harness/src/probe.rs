//! `rvh probe <snapshots.ndjson> <out.ndjson>`: for each crash snapshot (an image of the arena file taken between two
//! atomic accesses) reopen it with map_mut in a forked child under an alarm and run a probe program on it.
//! Logs what happened (a child killed by the alarm = an operation that does not terminate); never judges.

use crate::common::*;
use crate::seq::{ArenaX, options_of};
use rarena_allocator::{Allocator, Buffer, sync, unsync};
use serde_json::{Value, json};
use std::io::Write;

fn obs<A: ArenaX>(a: &A) -> Value {
  let (fl, trunc) = a.snap(512);
  json!({"alloc": sat(a.allocated() as u64), "disc": sat(a.discarded() as u64), "cap": a.capacity(), "doff": a.data_offset(),
         "minseg": sat(a.minimum_segment_size() as u64),
         "fl": fl.iter().map(|(o, s, _)| json!([sat(*o as u64), sat(*s as u64)])).collect::<Vec<_>>(), "fltrunc": trunc})
}

fn probe_child<A: ArenaX>(img: &str, cfg: &Value, probe: &[Value], w: &mut std::fs::File) {
  let mut c = cfg.clone();
  c["cap"] = json!(std::fs::metadata(img).map(|m| m.len()).unwrap_or(0));
  let o = options_of(&c).maybe_capacity(None).with_read(true).with_write(true);
  let r = unsafe { o.map_mut::<A, _>(img) };
  let a = match r {
    Ok(a) => a,
    Err(e) => {
      writeln!(w, "{}", json!({"ev": "p_open", "res": {"k": "err", "kind": format!("{:?}", e.kind())}})).unwrap();
      return;
    }
  };
  writeln!(w, "{}", json!({"ev": "p_open", "res": {"k": "ok"}, "obs": obs(&a), "mem": rle(a.memory())})).unwrap();
  let mut handles: Vec<rarena_allocator::BytesRefMut<'_, A>> = Vec::new();
  for (i, op) in probe.iter().enumerate() {
    writeln!(w, "{}", json!({"ev": "p_begin", "i": i + 1, "op": op})).unwrap();
    w.flush().unwrap();
    let res = match op["k"].as_str().unwrap() {
      "ab" => match a.alloc_bytes(op["n"].as_u64().unwrap() as u32) {
        Ok(mut b) => {
          let r = json!({"k": "ok", "po": b.offset(), "ps": b.capacity(), "mo": b.buffer_offset(), "ms": b.buffer_capacity()});
          let n = b.capacity();
          if n > 0 {
            unsafe { std::ptr::write_bytes(b.as_mut_ptr(), 0xAB, n) };
          }
          handles.push(b);
          r
        }
        Err(e) => json!({"k": err_kind(&e)}),
      },
      "drop_last" => {
        handles.pop();
        json!({"k": "ok"})
      }
      "drop_first" => {
        if !handles.is_empty() {
          handles.remove(0);
        }
        json!({"k": "ok"})
      }
      "discard" => match a.discard_freelist() {
        Ok(v) => json!({"k": "ok", "v": sat(v as u64)}),
        Err(e) => json!({"k": err_kind(&e)}),
      },
      k => panic!("bad probe op {k}"),
    };
    writeln!(w, "{}", json!({"ev": "p_op", "i": i + 1, "op": op, "res": res, "obs": obs(&a)})).unwrap();
  }
  for mut h in handles {
    unsafe { h.detach() };
  }
  writeln!(w, "{}", json!({"ev": "p_done", "obs": obs(&a), "mem": rle(a.memory())})).unwrap();
  w.flush().unwrap();
}

pub fn run(args: &[String]) {
  let input = std::fs::read_to_string(&args[0]).expect("read snapshots");
  let mut out = std::io::BufWriter::new(std::fs::File::create(&args[1]).expect("create out"));
  let alarm_s: u32 = args.get(2).and_then(|s| s.parse().ok()).unwrap_or(2);
  std::panic::set_hook(Box::new(|_| {}));
  for line in input.lines() {
    if line.trim().is_empty() {
      continue;
    }
    let s: Value = serde_json::from_str(line).expect("snapshot json");
    let img = s["img"].as_str().unwrap().to_string();
    let probe: Vec<Value> = s["probe"].as_array().cloned().unwrap_or_default();
    let flavor = s["flavor"].as_str().unwrap_or("sync").to_string();
    let tmp = format!("{img}.probe");
    // (no JSON null for TLC: the per-thread pending accesses travel as a string)
    writeln!(out, "{}", json!({"ev": "reset", "id": s["id"], "live": s["live"], "threads": s["threads"].to_string(), "before_step": s["before_step"],
                               "driver": s["driver"]})).unwrap();
    out.flush().unwrap();
    let pid = unsafe { libc::fork() };
    if pid == 0 {
      // a probe that does not terminate spins: it is stopped after `alarm_s` seconds of its own CPU time (robust against a
      // loaded machine, where a wall-clock alarm could hit a child that merely was not scheduled); wall-clock backstop 30x
      unsafe {
        let it = libc::itimerval {
          it_interval: libc::timeval { tv_sec: 0, tv_usec: 0 },
          it_value: libc::timeval { tv_sec: alarm_s as libc::time_t, tv_usec: 0 },
        };
        libc::setitimer(libc::ITIMER_PROF, &it, std::ptr::null_mut());
        libc::alarm(alarm_s * 30);
      }
      let mut w = std::fs::File::create(&tmp).expect("tmp");
      let r = std::panic::catch_unwind(std::panic::AssertUnwindSafe(|| {
        if flavor == "sync" {
          probe_child::<sync::Arena>(&img, &s["cfg"], &probe, &mut w)
        } else {
          probe_child::<unsync::Arena>(&img, &s["cfg"], &probe, &mut w)
        }
      }));
      if r.is_err() {
        let _ = writeln!(w, "{}", json!({"ev": "p_panic"}));
      }
      let _ = w.flush();
      unsafe { libc::_exit(0) };
    }
    let mut status: libc::c_int = 0;
    unsafe { libc::waitpid(pid, &mut status, 0) };
    if let Ok(t) = std::fs::read_to_string(&tmp) {
      for l in t.lines() {
        if l.ends_with('}') {
          writeln!(out, "{}", l).unwrap();
        }
      }
    }
    let sig = if libc::WIFSIGNALED(status) { libc::WTERMSIG(status) } else { 0 };
    writeln!(out, "{}", json!({"ev": "p_exit", "signal": sig, "timeout": sig == libc::SIGALRM || sig == libc::SIGPROF})).unwrap();
    let _ = std::fs::remove_file(&tmp);
    let _ = std::fs::remove_file(&img);
  }
  out.flush().unwrap();
}
