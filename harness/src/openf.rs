//! `rvh open`: open attempts on valid / damaged arena files (C09). Logs the file bytes before and after each attempt
//! and the outcome; never judges.

use crate::common::*;
use crate::seq::{ArenaX, Driven, Inst, freelist_of, options_of};
use rarena_allocator::{Options, sync, unsync};
use serde_json::{Value, json};
use std::io::Write;

/// Foreign bytes in front of the arena when it is mapped at a file offset (`Options::with_offset`).
const FOREIGN: u8 = 0xF0;

/// The file as the arena sees it: the bytes from the mapping offset on; `pre_len` / `pre_ok` describe the foreign bytes before it.
fn file_state(p: &std::path::Path, off: usize) -> Value {
  match std::fs::read(p) {
    Ok(b) => {
      let cut = off.min(b.len());
      json!({"exists": true, "len": b.len() - cut, "rle": rle(&b[cut..]), "pre_len": cut, "pre_ok": b[..cut].iter().all(|x| *x == FOREIGN)})
    }
    Err(_) => json!({"exists": false, "len": 0, "rle": [], "pre_len": 0, "pre_ok": true}),
  }
}

fn attempt<A: ArenaX>(path: &std::path::Path, att: &Value) -> Value {
  let mut o = Options::new()
    .with_reserved(att["reserved"].as_u64().unwrap_or(0) as u32)
    .with_freelist(freelist_of(att["kind"].as_str().unwrap_or("opt")))
    .with_magic_version(att["magic"].as_u64().unwrap_or(0) as u16)
    .with_minimum_segment_size(att["minseg"].as_u64().unwrap_or(8) as u32)
    .with_offset(att["offset"].as_u64().unwrap_or(0))
    .with_truncate(att["truncate"].as_bool().unwrap_or(false))
    .with_append(att["append"].as_bool().unwrap_or(false))
    .with_read(true);
  let capv = att["cap"].as_u64().unwrap_or(0);
  o = o.maybe_capacity(if capv == 0 { None } else { Some(capv as u32) });
  let variant = att["variant"].as_str().unwrap();
  let r = std::panic::catch_unwind(std::panic::AssertUnwindSafe(|| unsafe {
    match variant {
      "map_mut" => o
        .with_write(true)
        .with_create(att["create"].as_bool().unwrap_or(false))
        .with_create_new(att["create_new"].as_bool().unwrap_or(false))
        .map_mut::<A, _>(path),
      "map_copy" => o.with_write(true).map_copy::<A, _>(path),
      "map" => o.map::<A, _>(path),
      "map_copy_ro" => o.map_copy_read_only::<A, _>(path),
      v => panic!("bad variant {v}"),
    }
  }));
  match r {
    Ok(Ok(a)) => {
      let d = json!({"k": "ok", "allocated": sat(a.allocated() as u64), "capacity": sat(a.capacity() as u64),
                     "read_only": a.read_only(), "magic_version": a.magic_version(), "data_offset": a.data_offset()});
      drop(a);
      d
    }
    Ok(Err(e)) => json!({"k": "err", "kind": format!("{:?}", e.kind()), "msg": e.to_string()}),
    Err(_) => json!({"k": "panic"}),
  }
}

/// `rvh open <drivers.ndjson> <out.ndjson> <workdir>`
pub fn run(args: &[String]) {
  let input = std::fs::read_to_string(&args[0]).expect("read drivers");
  let mut out = std::io::BufWriter::new(std::fs::File::create(&args[1]).expect("create out"));
  let workdir = args.get(2).cloned().unwrap_or_else(|| "/verif/work/files".to_string());
  std::panic::set_hook(Box::new(|_| {}));
  install_api_only_hooks();
  for line in input.lines() {
    if line.trim().is_empty() {
      continue;
    }
    let d: Value = serde_json::from_str(line).expect("driver json");
    let flavor = d["flavor"].as_str().unwrap_or("sync");
    let base = &d["base"];
    let path = scratch_path(&workdir, "open");
    // the arena may live at an offset into the file: everything before it is foreign data
    let offset = base["offset"].as_u64().unwrap_or(0) as usize;
    // 1. a valid file with some history
    let mut cfg = base.clone();
    cfg["unify"] = json!(true);
    let created = unsafe {
      let o = options_of(&cfg).with_offset(offset as u64).with_create_new(true).with_read(true).with_write(true);
      match flavor {
        "sync" => o.map_mut::<sync::Arena, _>(&path).map(|a| Box::new(Inst::new(a, None, "file")) as Box<dyn Driven>),
        _ => o.map_mut::<unsync::Arena, _>(&path).map(|a| Box::new(Inst::new(a, None, "file")) as Box<dyn Driven>),
      }
    };
    let mut reset = json!({"ev": "reset", "id": d["id"], "flavor": flavor, "base": base});
    match created {
      Ok(mut inst) => {
        let _ = inst.describe(&cfg);
        for op in d["history"].as_array().map(|v| v.as_slice()).unwrap_or(&[]) {
          let _ = inst.apply(op);
        }
        inst.finish();
        reset["created"] = json!(true);
      }
      Err(e) => {
        reset["created"] = json!(false);
        reset["err"] = json!(format!("{:?}", e.kind()));
      }
    }
    writeln!(out, "{}", reset).unwrap();
    if offset > 0 {
      if let Ok(mut bytes) = std::fs::read(&path) {
        let cut = offset.min(bytes.len());
        for b in bytes[..cut].iter_mut() {
          *b = FOREIGN;
        }
        std::fs::write(&path, &bytes).unwrap();
      }
    }
    // 2. damage (positions are relative to the mapping offset; a truncation may cut into the foreign bytes)
    for m in d["mut"].as_array().map(|v| v.as_slice()).unwrap_or(&[]) {
      let mut bytes = std::fs::read(&path).unwrap_or_default();
      match m["k"].as_str().unwrap() {
        "set" => {
          let at = m["at"].as_u64().unwrap() as usize + offset;
          for (i, b) in m["bytes"].as_array().unwrap().iter().enumerate() {
            if at + i < bytes.len() {
              bytes[at + i] = b.as_u64().unwrap() as u8;
            }
          }
        }
        "truncate" => bytes.truncate((m["len"].as_i64().unwrap() + offset as i64).max(0) as usize),
        "replace" => {
          bytes.truncate(offset);
          bytes.extend(m["bytes"].as_array().unwrap().iter().map(|b| b.as_u64().unwrap() as u8));
        }
        "fill" => {
          let v = m["v"].as_u64().unwrap() as u8;
          for b in bytes.iter_mut().skip(offset) {
            *b = v;
          }
        }
        "remove" => {
          let _ = std::fs::remove_file(&path);
          continue;
        }
        k => panic!("bad mutation {k}"),
      }
      std::fs::write(&path, &bytes).unwrap();
    }
    // 3. attempts
    for (i, att) in d["attempts"].as_array().unwrap().iter().enumerate() {
      let before = file_state(&path, offset);
      writeln!(out, "{}", json!({"ev": "begin", "i": i + 1, "att": att})).unwrap();
      out.flush().unwrap();
      let res = match flavor {
        "sync" => attempt::<sync::Arena>(&path, att),
        _ => attempt::<unsync::Arena>(&path, att),
      };
      let after = file_state(&path, offset);
      let _ = take_api();
      writeln!(out, "{}", json!({"ev": "open", "i": i + 1, "att": att, "before": before, "after": after, "res": res})).unwrap();
    }
    let _ = std::fs::remove_file(&path);
  }
  out.flush().unwrap();
}
