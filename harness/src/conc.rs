//! Controlled scheduler: real OS threads on one shared `sync::Arena`, serialised at every atomic access of the
//! crate (wrapper-atomics hook), at every `Meta::clear` and at every user-level access of the harness.
//! Exactly one thread runs between two scheduling points, so the controller's step counter is the only clock.
//! The harness drives and logs; TLC judges (TraceSyncProp / TraceSyncImpl / TraceHB).

use crate::common::*;
use crate::seq::{ArenaX, build, options_of};
use crate::with_type;
use rarena_allocator::{
  Allocator, Error, sync,
  verif::{self as vh, ApiEvent, AtomicEvent},
};
use serde_json::{Value, json};
use std::cell::Cell;
use std::collections::BTreeMap;
use std::io::Write;
use std::sync::{Arc, Condvar, Mutex, OnceLock};

const NONE: usize = usize::MAX;

thread_local! {
  static TID: Cell<usize> = const { Cell::new(NONE) };
}

struct SendHandle(Box<dyn AnyHandle>);
unsafe impl Send for SendHandle {}

#[derive(Default)]
struct St {
  turn: Option<usize>,
  running: Option<usize>,
  parked: Vec<Option<Value>>,
  done: Vec<bool>,
  cur_op: Vec<Option<Value>>,
  events: Vec<Value>,
  step: u64,
  since_write: u64,
  /// steps each thread took since the last successful write by anyone
  idle_steps: Vec<u64>,
  handles: BTreeMap<u32, SendHandle>,
  addrs: Option<vh::Addrs>,
  // further mappings of the same file (two_maps mode): the same offsets at other addresses
  more_addrs: Vec<vh::Addrs>,
}

struct Ctl {
  m: Mutex<St>,
  cv: Condvar,
}

static CTL: OnceLock<Arc<Ctl>> = OnceLock::new();

fn ctl() -> Arc<Ctl> {
  CTL.get().expect("controller").clone()
}

fn ord(o: std::sync::atomic::Ordering) -> &'static str {
  use std::sync::atomic::Ordering::*;
  match o {
    Relaxed => "rlx",
    Release => "rel",
    Acquire => "acq",
    AcqRel => "acqrel",
    SeqCst => "sc",
    _ => "?",
  }
}

fn kind_name(k: u8) -> &'static str {
  match k {
    vh::LOAD => "load",
    vh::STORE => "store",
    vh::CAS => "cas",
    vh::CAS_WEAK => "casw",
    vh::FETCH_ADD => "fadd",
    vh::FETCH_SUB => "fsub",
    _ => "?",
  }
}

/// u32::MAX is the sentinel/tail marker: logged as -1; other values saturated.
fn w32(v: u32) -> i64 {
  if v == u32::MAX {
    -1
  } else if v as u64 >= SAT {
    -3 // BIG: any other value TLC cannot hold exactly
  } else {
    v as i64
  }
}

fn word(v: u64) -> Value {
  json!([w32((v >> 32) as u32), w32(v as u32)])
}

fn locate(a: &vh::Addrs, addr: usize) -> (String, i64) {
  if addr == a.cursor {
    ("cursor".into(), -1)
  } else if addr == a.discarded {
    ("disc".into(), -1)
  } else if addr == a.min_segment_size {
    ("minseg".into(), -1)
  } else if addr == a.sentinel {
    ("sent".into(), -1)
  } else if addr == a.refs {
    ("refs".into(), -1)
  } else if addr >= a.base && addr < a.base + a.cap {
    ("node".into(), (addr - a.base) as i64)
  } else {
    ("other".into(), -1)
  }
}

fn describe(e: &AtomicEvent, st: &St) -> Value {
  let (mut loc, mut off) = match &st.addrs {
    Some(a) => locate(a, e.addr),
    None => ("?".into(), -1),
  };
  if loc == "other" {
    for a in &st.more_addrs {
      let (l2, o2) = locate(a, e.addr);
      if l2 != "other" {
        loc = l2;
        off = o2;
        break;
      }
    }
  }
  let wide = e.width == 8 && (loc == "sent" || loc == "node");
  let val = |v: u64| if wide { word(v) } else { json!(sat(v)) };
  json!({"loc": loc, "off": off, "kind": kind_name(e.kind), "a0": val(e.arg0), "a1": val(e.arg1),
         "so": ord(e.success), "fo": ord(e.failure)})
}

/// Give control back to the controller and wait to be granted the next step.
fn park(tid: usize, pending: Value) {
  let c = ctl();
  let mut st = c.m.lock().unwrap();
  st.parked[tid] = Some(pending);
  st.running = None;
  c.cv.notify_all();
  while st.turn != Some(tid) {
    st = c.cv.wait(st).unwrap();
  }
  st.turn = None;
  st.parked[tid] = None;
  st.running = Some(tid);
}

fn push(ev: Value, write: bool) {
  let c = ctl();
  let mut st = c.m.lock().unwrap();
  if write {
    st.since_write = 0;
  }
  st.events.push(ev);
}

fn hook_before(e: &AtomicEvent) {
  let tid = TID.with(|t| t.get());
  if tid == NONE {
    return;
  }
  let d = {
    let c = ctl();
    let st = c.m.lock().unwrap();
    describe(e, &st)
  };
  park(tid, d);
}

fn hook_after(e: &AtomicEvent, old: u64, ok: bool) {
  let tid = TID.with(|t| t.get());
  if tid == NONE {
    return;
  }
  let c = ctl();
  let mut st = c.m.lock().unwrap();
  let mut d = describe(e, &st);
  let wide = e.width == 8 && (d["loc"] == "sent" || d["loc"] == "node");
  d["old"] = if wide { word(old) } else { json!(sat(old)) };
  d["ok"] = json!(ok);
  d["ev"] = json!("acc");
  d["t"] = json!(tid);
  let wrote = match e.kind {
    vh::LOAD => false,
    vh::CAS | vh::CAS_WEAK => ok,
    _ => true,
  };
  if wrote {
    st.since_write = 0;
  }
  st.events.push(d);
}

fn hook_api(e: &ApiEvent) {
  let tid = TID.with(|t| t.get());
  match *e {
    ApiEvent::Zero { offset, len } => {
      if tid != NONE {
        park(tid, json!({"kind": "zero", "off": offset, "len": len}));
        push(json!({"ev": "zero", "t": tid, "off": sat(offset as u64), "len": sat(len as u64)}), true);
      }
    }
    ApiEvent::Dealloc { offset, size, .. } => {
      if tid != NONE {
        push(json!({"ev": "dealloc", "t": tid, "off": sat(offset as u64), "size": sat(size as u64)}), false);
      } else {
        api_hook(e);
      }
    }
    ApiEvent::Unmount => {
      if tid != NONE {
        push(json!({"ev": "unmount", "t": tid}), true);
      } else {
        api_hook(e);
      }
    }
  }
}

fn alloc_typed<T: 'static, A: ArenaX>(arena: &'static A, _o: bool) -> Result<Box<dyn AnyHandle>, Error> {
  unsafe { arena.alloc::<T>().map(|h| Box::new(h) as Box<dyn AnyHandle>) }
}

fn alloc_aligned<T: 'static, A: ArenaX>(arena: &'static A, n: u32, _o: bool) -> Result<Box<dyn AnyHandle>, Error> {
  arena.alloc_aligned_bytes::<T>(n).map(|h| Box::new(h) as Box<dyn AnyHandle>)
}

fn do_alloc(arena: &'static sync::Arena, op: &Value) -> Result<Box<dyn AnyHandle>, Error> {
  match op["k"].as_str().unwrap() {
    "ab" => arena
      .alloc_bytes(op["n"].as_u64().unwrap() as u32)
      .map(|h| Box::new(h) as Box<dyn AnyHandle>),
    "at" => with_type!(op["s"].as_u64().unwrap(), op["a"].as_u64().unwrap(), alloc_typed, sync::Arena, arena, false)
      .expect("type"),
    "aa" => with_type!(
      op["s"].as_u64().unwrap(),
      op["a"].as_u64().unwrap(),
      alloc_aligned,
      sync::Arena,
      arena,
      op["n"].as_u64().unwrap() as u32,
      false
    )
    .expect("type"),
    k => panic!("not an alloc op {k}"),
  }
}

fn handle_bytes(arena: &sync::Arena, m: [u64; 4]) -> Value {
  let mem = arena.memory();
  let lo = (m[2] as usize).min(mem.len());
  let hi = ((m[2] + m[3]) as usize).min(mem.len());
  rle(&mem[lo..hi])
}

fn obs(arena: &sync::Arena) -> Value {
  let (alloc, disc, minseg, refs) = arena.verif_peek();
  let (fl, trunc) = arena.verif_freelist_snapshot(512);
  json!({"alloc": sat(alloc as u64), "disc": sat(disc as u64), "minseg": sat(minseg as u64), "refs": refs,
         "cap": arena.capacity(), "doff": arena.data_offset(),
         "fl": fl.iter().map(|(o, s, n)| json!([sat(*o as u64), w32(*s), w32(*n)])).collect::<Vec<_>>(), "fltrunc": trunc})
}

/// Execute one program op on behalf of thread `tid` (tid == NONE: setup, uncontrolled).
fn exec_op(arena: &'static sync::Arena, tid: usize, op: &Value, next_id: &mut u32, clones: &mut Vec<sync::Arena>, own: bool) {
  let t: i64 = if tid == NONE { -1 } else { tid as i64 };
  let k = op["k"].as_str().unwrap();
  {
    let c = ctl();
    let mut st = c.m.lock().unwrap();
    if tid != NONE {
      st.cur_op[tid] = Some(op.clone());
    }
    st.events.push(json!({"ev": "call", "t": t, "op": op}));
    st.since_write = 0;
  }
  match k {
    "ab" | "at" | "aa" => {
      let r = do_alloc(arena, op);
      let res = match r {
        Ok(mut h) => {
          let id = op.get("id").and_then(|v| v.as_u64()).map(|v| v as u32).unwrap_or_else(|| {
            let v = *next_id;
            *next_id += 1;
            v
          });
          let m = h.meta();
          let base = arena.raw_ptr() as usize;
          let ptr_off = h.addr().map(|p| sat_i(p as i128 - base as i128)).unwrap_or(-1);
          let bytes = handle_bytes(arena, m);
          let (alloc, _, _, _) = arena.verif_peek();
          ctl().m.lock().unwrap().handles.insert(id, SendHandle(h));
          json!({"k": "ok", "h": id, "mo": sat(m[0]), "ms": sat(m[1]), "po": sat(m[2]), "ps": sat(m[3]),
                 "ptr_off": ptr_off, "bytes": bytes, "cur": alloc})
        }
        Err(e) => json!({"k": err_kind(&e)}),
      };
      push(json!({"ev": "ret", "t": t, "op": op, "res": res}), true);
    }
    "fill" | "verify" | "write" | "drop" | "dealloc" | "leak" => {
      let id = op["h"].as_u64().unwrap() as u32;
      let present = ctl().m.lock().unwrap().handles.contains_key(&id);
      if !present {
        push(json!({"ev": "ret", "t": t, "op": op, "res": {"k": "skip"}}), true);
      } else {
        match k {
          "fill" | "write" | "verify" => {
            if tid != NONE {
              park(tid, json!({"kind": k, "h": id}));
            }
            let c = ctl();
            let mut st = c.m.lock().unwrap();
            let h = &mut st.handles.get_mut(&id).unwrap().0;
            let m = h.meta();
            // a handle that reaches beyond the arena is logged as it is but never written through (the harness must
            // survive what it reports)
            let inside = m[2] + m[3] <= arena.capacity() as u64;
            if !inside {
            } else if k == "fill" {
              h.fill(pattern(id));
            } else if k == "write" {
              // adversarial 8-byte value at byte offset `at` inside the accessible range (through the handle's pointer)
              let at = op["at"].as_u64().unwrap_or(0);
              // "vw": [size, next] with -1 = u32::MAX and -3 (BIG) = 0x7FFF_FFFF; or "v": hex string
              let half = |x: i64| -> u64 {
                if x == -1 { 0xFFFF_FFFF } else if x == -3 { 0x7FFF_FFFF } else { x as u64 & 0xFFFF_FFFF }
              };
              let v = match op.get("vw").and_then(|x| x.as_array()) {
                Some(p) => (half(p[0].as_i64().unwrap()) << 32) | half(p[1].as_i64().unwrap()),
                None => u64::from_str_radix(op["v"].as_str().unwrap(), 16).unwrap(),
              };
              if let Some(p) = h.addr() {
                if at + 8 <= m[3] {
                  unsafe { std::ptr::write_unaligned((p as *mut u8).add(at as usize) as *mut u64, v) };
                }
              }
            }
            let bytes = handle_bytes(arena, m);
            st.since_write = 0;
            st.events.push(json!({"ev": "ret", "t": t, "op": op, "res": {"k": "ok", "bytes": bytes, "po": m[2], "ps": m[3]}}));
          }
          _ => {
            let mut h = ctl().m.lock().unwrap().handles.remove(&id).unwrap().0;
            let m = h.meta();
            if k == "leak" {
              h.detach_h();
              drop(h);
            } else if k == "drop" {
              drop(h);
            } else {
              h.detach_h();
              drop(h);
              unsafe { arena.dealloc(m[0] as u32, m[1] as u32) };
            }
            push(json!({"ev": "ret", "t": t, "op": op, "res": {"k": "ok"}}), true);
          }
        }
      }
    }
    "discard" => {
      let r = arena.discard_freelist();
      let res = match r {
        Ok(v) => json!({"k": "ok", "v": sat(v as u64)}),
        Err(e) => json!({"k": err_kind(&e)}),
      };
      push(json!({"ev": "ret", "t": t, "op": op, "res": res}), true);
    }
    "setmin" => {
      arena.set_minimum_segment_size(op["v"].as_u64().unwrap() as u32);
      push(json!({"ev": "ret", "t": t, "op": op, "res": {"k": "ok"}}), true);
    }
    "incdisc" => {
      arena.increase_discarded(op["v"].as_u64().unwrap() as u32);
      push(json!({"ev": "ret", "t": t, "op": op, "res": {"k": "ok"}}), true);
    }
    "clone_drop" => {
      let a2 = arena.clone();
      drop(a2);
      push(json!({"ev": "ret", "t": t, "op": op, "res": {"k": "ok"}}), true);
    }
    "clone" => {
      clones.push(arena.clone());
      push(json!({"ev": "ret", "t": t, "op": op, "res": {"k": "ok"}}), true);
    }
    "drop_clone" => {
      if let Some(c) = clones.pop() {
        drop(c);
      }
      push(json!({"ev": "ret", "t": t, "op": op, "res": {"k": "ok"}}), true);
    }
    "drop_arena" => {
      // the thread gives up its own arena value (own_clones mode); the last one unmounts the memory
      if own {
        unsafe { drop(Box::from_raw(arena as *const _ as *mut sync::Arena)) };
      }
      push(json!({"ev": "ret", "t": t, "op": op, "res": {"k": "ok", "own": own}}), true);
    }
    _ => panic!("unknown conc op {k}"),
  }
  if tid != NONE {
    ctl().m.lock().unwrap().cur_op[tid] = None;
  }
}

fn end_event(arena: &sync::Arena, kind: &str, extra: Value) -> Value {
  let c = ctl();
  let st = c.m.lock().unwrap();
  let live: Vec<Value> = st
    .handles
    .iter()
    .map(|(id, h)| {
      let m = h.0.meta();
      json!({"h": id, "po": m[2], "ps": m[3], "bytes": handle_bytes(arena, m)})
    })
    .collect();
  json!({"ev": kind, "obs": obs(arena), "live": live, "mem": rle(arena.memory()), "steps": st.step, "x": extra})
}

enum CrashAt {
  None,
  All,
  Steps(Vec<u64>),
}

const SPIN_WINDOW: u64 = 400;
const SPIN_MIN_EACH: u64 = 60;

/// Run one driver; returns false if the run got stuck (the process must then exit: threads are spinning).
fn run_driver(d: &Value, out: &mut impl Write, workdir: &str) -> bool {
  let cfg = &d["cfg"];
  let backend = cfg["backend"].as_str().unwrap_or("vec");
  let nthreads = d["threads"].as_array().unwrap().len();
  let (arena, file) = match build::<sync::Arena>(cfg, backend, workdir) {
    Ok(x) => x,
    Err(e) => {
      writeln!(out, "{}", json!({"ev": "reset", "id": d["id"], "cfg": cfg, "ok": false, "err": e})).unwrap();
      return true;
    }
  };
  let arena: &'static sync::Arena = Box::leak(Box::new(arena));
  {
    let c = ctl();
    let mut st = c.m.lock().unwrap();
    *st = St::default();
    st.parked = vec![None; nthreads];
    st.done = vec![false; nthreads];
    st.cur_op = vec![None; nthreads];
    st.idle_steps = vec![0; nthreads];
    st.addrs = Some(arena.verif_addrs());
  }
  let _ = take_api();
  // ---- setup (uncontrolled, sequential)
  let mut next_id = 1u32;
  let mut no_clones: Vec<sync::Arena> = Vec::new();
  for op in d["setup"].as_array().map(|v| v.as_slice()).unwrap_or(&[]) {
    exec_op(arena, NONE, op, &mut next_id, &mut no_clones, false);
  }
  // own_clones: every thread works through its own arena value and drops it itself; the main value goes away
  // before the threads start, so the last thread to drop unmounts the memory (C12 / C13 teardown)
  let own_clones = cfg["own_clones"].as_bool().unwrap_or(false);
  // two_maps: every thread but the first works through its OWN mapping of the same file (a second map_mut of the path,
  // as another process would have): same offsets, other addresses -- nothing in the file may depend on an address
  let two_maps = cfg["two_maps"].as_bool().unwrap_or(false) && file.is_some();
  let events_before_maps = ctl().m.lock().unwrap().events.len();
  let thread_arenas: Vec<usize> = (0..nthreads)
    .map(|t| {
      if own_clones {
        Box::into_raw(Box::new(arena.clone())) as usize
      } else if two_maps && t > 0 {
        let a2: sync::Arena = unsafe {
          options_of(cfg)
            .with_read(true)
            .with_write(true)
            .map_mut::<sync::Arena, _>(file.as_ref().unwrap())
            .expect("second mapping of the arena file")
        };
        let a2: &'static sync::Arena = Box::leak(Box::new(a2));
        ctl().m.lock().unwrap().more_addrs.push(a2.verif_addrs());
        a2 as *const _ as usize
      } else {
        arena as *const _ as usize
      }
    })
    .collect();
  if two_maps {
    // the opens above are not part of the run
    ctl().m.lock().unwrap().events.truncate(events_before_maps);
    let _ = take_api();
  }
  let setup_events = std::mem::take(&mut ctl().m.lock().unwrap().events);
  writeln!(
    out,
    "{}",
    json!({"ev": "reset", "id": d["id"], "cfg": cfg, "ok": true, "nthreads": nthreads, "obs": obs(arena),
           "mem": rle(arena.memory()), "setup": setup_events})
  )
  .unwrap();
  out.flush().unwrap();
  if own_clones {
    // setup handles must not outlive the main arena value: leak them (detached)
    let hs = std::mem::take(&mut ctl().m.lock().unwrap().handles);
    for (_, mut h) in hs {
      h.0.detach_h();
      drop(h);
    }
    unsafe { drop(Box::from_raw(arena as *const _ as *mut sync::Arena)) };
  }
  // ---- threads: started one at a time, each runs up to its first scheduling point
  let mut joins = Vec::new();
  for t in 0..nthreads {
    let prog: Vec<Value> = d["threads"][t].as_array().unwrap().clone();
    {
      let c = ctl();
      let mut st = c.m.lock().unwrap();
      st.running = Some(t);
    }
    let my_arena: &'static sync::Arena = unsafe { &*(thread_arenas[t] as *const sync::Arena) };
    let j = std::thread::spawn(move || {
      TID.with(|x| x.set(t));
      let mut nid = (t as u32 + 1) * 50 + 1;
      let mut clones: Vec<sync::Arena> = Vec::new();
      for op in &prog {
        exec_op(my_arena, t, op, &mut nid, &mut clones, own_clones);
      }
      // arena values a program forgot are leaked (never dropped behind the scheduler's back)
      for c in clones {
        std::mem::forget(c);
      }
      TID.with(|x| x.set(NONE));
      let c = ctl();
      let mut st = c.m.lock().unwrap();
      st.done[t] = true;
      st.running = None;
      c.cv.notify_all();
    });
    joins.push(j);
    let c = ctl();
    let mut st = c.m.lock().unwrap();
    while st.running.is_some() {
      st = c.cv.wait(st).unwrap();
    }
  }
  // ---- controlled execution
  let sched: Vec<usize> = d["schedule"]
    .as_array()
    .map(|v| v.iter().map(|x| x.as_u64().unwrap() as usize).collect())
    .unwrap_or_default();
  let budget = d["budget"].as_u64().unwrap_or(20000);
  let crash_at = match d.get("crash_at") {
    Some(Value::String(s)) if s == "all" => CrashAt::All,
    Some(Value::Array(v)) => CrashAt::Steps(v.iter().map(|x| x.as_u64().unwrap()).collect()),
    _ => CrashAt::None,
  };
  let mut rng_state: u64 = d["tail_seed"].as_u64().unwrap_or(0);
  let mut i = 0usize;
  let mut rr = 0usize;
  let mut stuck: Option<&str> = None;
  loop {
    let c = ctl();
    let mut st = c.m.lock().unwrap();
    while st.running.is_some() {
      st = c.cv.wait(st).unwrap();
    }
    // flush events produced by the last step
    for ev in st.events.drain(..) {
      writeln!(out, "{}", ev).unwrap();
    }
    // a crash of the process (abort / signal inside the arena) must stay attributable
    out.flush().unwrap();
    if st.done.iter().all(|x| *x) {
      break;
    }
    // non-termination under FAIR scheduling: nobody has written for a long time although every unfinished
    // thread has been scheduled many times in that window (a starving schedule prefix alone never triggers this)
    if st.since_write > SPIN_WINDOW && (0..nthreads).all(|t| st.done[t] || st.idle_steps[t] >= SPIN_MIN_EACH) {
      stuck = Some("spin");
    } else if st.step > budget {
      stuck = Some("budget");
    }
    if let Some(kind) = stuck {
      let th: Vec<Value> = (0..nthreads)
        .filter(|t| !st.done[*t])
        .map(|t| json!({"t": t, "op": st.cur_op[t], "pending": st.parked[t]}))
        .collect();
      drop(st);
      if own_clones {
        // a thread that is stuck has not given up its arena value: observe through it
        let alive = (0..nthreads).find(|t| th.iter().any(|x| x["t"] == json!(*t)));
        let a2: &'static sync::Arena = unsafe { &*(thread_arenas[alive.unwrap_or(0)] as *const sync::Arena) };
        writeln!(out, "{}", end_event(a2, "stuck", json!({"kind": kind, "threads": th}))).unwrap();
      } else {
        writeln!(out, "{}", end_event(arena, "stuck", json!({"kind": kind, "threads": th}))).unwrap();
      }
      out.flush().unwrap();
      return false;
    }
    // choose the next thread: the schedule first, then a fair tail (round robin, or seeded random with aging)
    let mut t = NONE;
    while i < sched.len() {
      let c = sched[i];
      i += 1;
      if c < nthreads && !st.done[c] {
        t = c;
        break;
      }
    }
    if t == NONE {
      if rng_state != 0 && st.step % 7 != 0 {
        rng_state ^= rng_state << 13;
        rng_state ^= rng_state >> 7;
        rng_state ^= rng_state << 17;
        let alive: Vec<usize> = (0..nthreads).filter(|t| !st.done[*t]).collect();
        t = alive[(rng_state % alive.len() as u64) as usize];
      } else {
        loop {
          let c = rr % nthreads;
          rr += 1;
          if !st.done[c] {
            t = c;
            break;
          }
        }
      }
    }
    // crash points: the file as the page cache holds it at this instant (every thread is parked between two accesses)
    let next_step = st.step + 1;
    let snap = match &crash_at {
      CrashAt::All => true,
      CrashAt::Steps(v) => v.contains(&next_step),
      CrashAt::None => false,
    };
    if snap && !own_clones {
      let img = scratch_path(workdir, "snap");
      std::fs::write(&img, arena.memory()).expect("write snapshot");
      let live: Vec<Value> = st
        .handles
        .iter()
        .map(|(id, h)| {
          let m = h.0.meta();
          json!({"h": id, "po": m[2], "ps": m[3], "bytes": handle_bytes(arena, m)})
        })
        .collect();
      let pend: Vec<Value> = (0..nthreads).map(|t| json!({"t": t, "done": st.done[t], "op": st.cur_op[t], "pending": st.parked[t]})).collect();
      writeln!(out, "{}", json!({"ev": "snapshot", "before_step": next_step, "img": img.to_string_lossy(), "live": live,
                                 "threads": pend, "cfg": cfg})).unwrap();
    }
    st.step += 1;
    st.since_write += 1;
    if st.since_write == 1 {
      for x in st.idle_steps.iter_mut() {
        *x = 0;
      }
    }
    st.idle_steps[t] += 1;
    let step = st.step;
    st.events.push(json!({"ev": "step", "n": step, "t": t}));
    st.turn = Some(t);
    st.running = Some(t);
    c.cv.notify_all();
  }
  for j in joins {
    let _ = j.join();
  }
  if own_clones {
    // the memory is gone (or leaked, if a program kept its arena): nothing left to observe
    writeln!(out, "{}", json!({"ev": "end", "gone": true, "live": [], "x": {}})).unwrap();
    let _ = take_api();
    let _ = std::mem::take(&mut ctl().m.lock().unwrap().handles).into_iter().map(|(_, h)| std::mem::forget(h)).count();
    if let Some(p) = file {
      let _ = std::fs::remove_file(p);
    }
    return true;
  }
  writeln!(out, "{}", end_event(arena, "end", json!({}))).unwrap();
  // tear down: leak handles (detached) so that nothing else touches the arena
  {
    let c = ctl();
    let mut st = c.m.lock().unwrap();
    let hs = std::mem::take(&mut st.handles);
    drop(st);
    for (_, mut h) in hs {
      h.0.detach_h();
      drop(h);
    }
  }
  let _ = take_api();
  unsafe { drop(Box::from_raw(arena as *const _ as *mut sync::Arena)) };
  if let Some(p) = file {
    let _ = std::fs::remove_file(p);
  }
  true
}

/// `rvh conc <drivers.ndjson> <out.ndjson> <workdir> [--from k]`; exit status 3 when a driver got stuck
/// (the remaining drivers are run by a fresh process, see lib/eng_sync.py).
pub fn run(args: &[String]) {
  let input = std::fs::read_to_string(&args[0]).expect("read drivers");
  let mut out = std::io::BufWriter::new(std::fs::File::create(&args[1]).expect("create out"));
  let workdir = args.get(2).cloned().unwrap_or_else(|| "/verif/work/files".to_string());
  let _ = CTL.set(Arc::new(Ctl { m: Mutex::new(St::default()), cv: Condvar::new() }));
  vh::set_hooks(Some(vh::Hooks { before: hook_before, after: hook_after, api: hook_api }));
  for line in input.lines() {
    if line.trim().is_empty() {
      continue;
    }
    let d: Value = serde_json::from_str(line).expect("driver json");
    if !run_driver(&d, &mut out, &workdir) {
      out.flush().unwrap();
      std::process::exit(3);
    }
  }
  out.flush().unwrap();
}
