//! `rvh locks <drivers.ndjson> <trace.ndjson> <dir>`: the advisory file locks of arenas that share one file.
//! A session is one open of the file; its arena values are clones of each other. Every call and its result is logged;
//! which locks are held is never asked of the code (it cannot say) -- spec/TraceLocks.tla works that out.
use crate::common::*;
use crate::seq::{options_of, ArenaX};
use rarena_allocator::{sync, unsync};
use serde_json::{json, Value};
use std::io::Write;
use std::panic::{catch_unwind, AssertUnwindSafe};

fn open_session<A: ArenaX>(kind: &str, cfg: &Value, path: &std::path::Path) -> Result<A, String> {
  let o = options_of(cfg);
  let r = unsafe {
    match kind {
      "map_mut" => o.with_read(true).with_write(true).map_mut::<A, _>(path),
      "map_copy" => o.with_read(true).with_write(true).map_copy::<A, _>(path),
      "map" => o.with_read(true).map::<A, _>(path),
      "map_copy_ro" => o.with_read(true).map_copy_read_only::<A, _>(path),
      "anon" => o.map_anon::<A>(),
      "vec" => return o.alloc::<A>().map_err(|e| format!("{e:?}")),
      other => panic!("unknown session kind {other}"),
    }
  };
  r.map_err(|e| format!("{:?}", e.kind()))
}

fn drive<A: ArenaX>(d: &Value, out: &mut impl Write, workdir: &str) {
  let path = scratch_path(workdir, "locks");
  let cfg = &d["cfg"];
  let kinds: Vec<String> = d["kinds"].as_array().unwrap().iter().map(|k| k.as_str().unwrap().to_string()).collect();
  // the file every session opens
  let made = unsafe { options_of(cfg).with_create_new(true).with_read(true).with_write(true).map_mut::<A, _>(&path) };
  match made {
    Ok(a) => drop(a),
    Err(e) => {
      writeln!(out, "{}", json!({"ev": "reset", "id": d["id"], "ok": false, "err": format!("{e:?}")})).unwrap();
      return;
    }
  }
  writeln!(out, "{}", json!({"ev": "reset", "id": d["id"], "ok": true, "kinds": kinds, "flavor": d["flavor"]})).unwrap();
  let mut vals: Vec<Vec<A>> = kinds.iter().map(|_| Vec::new()).collect();
  for (i, op) in d["ops"].as_array().unwrap().iter().enumerate() {
    let k = op["k"].as_str().unwrap();
    let s = op["s"].as_u64().unwrap() as usize - 1;
    // which value of the session the call goes through: alternate, so that a lock taken through one is seen through the other
    let via = if vals[s].is_empty() { 0 } else { i % vals[s].len() };
    let r = catch_unwind(AssertUnwindSafe(|| -> Value {
      match k {
        "open" => match open_session::<A>(&kinds[s], cfg, &path) {
          Ok(a) => {
            vals[s].push(a);
            json!({"k": "ok", "v": true})
          }
          Err(e) => json!({"k": "err", "kind": e}),
        },
        "clone" => {
          let c = vals[s][via].clone();
          vals[s].push(c);
          json!({"k": "ok", "v": true})
        }
        "dropval" => {
          // the value the last lock call did NOT go through, if there are two
          let a = vals[s].remove(via);
          drop(a);
          json!({"k": "ok", "v": true})
        }
        _ => {
          let a = &vals[s][via];
          let r = match k {
            "try_ex" => a.try_lock_exclusive(),
            "try_sh" => a.try_lock_shared(),
            "lock_ex" => a.lock_exclusive().map(|_| true),
            "lock_sh" => a.lock_shared().map(|_| true),
            "unlock" => a.unlock().map(|_| true),
            other => panic!("unknown lock op {other}"),
          };
          match r {
            Ok(v) => json!({"k": "ok", "v": v}),
            Err(e) => json!({"k": "err", "kind": format!("{:?}", e.kind()), "os": e.raw_os_error().unwrap_or(-1)}),
          }
        }
      }
    }));
    let res = match r {
      Ok(v) => v,
      Err(p) => {
        let msg = p.downcast_ref::<String>().cloned().or_else(|| p.downcast_ref::<&str>().map(|s| s.to_string())).unwrap_or_default();
        json!({"k": "panic", "msg": msg})
      }
    };
    let dead = res["k"] == "panic";
    writeln!(out, "{}", json!({"ev": "op", "i": i, "op": op, "via": via, "nvals": vals[s].len(), "res": res})).unwrap();
    if dead {
      break;
    }
  }
  drop(vals);
  let _ = std::fs::remove_file(&path);
}

pub fn run(args: &[String]) {
  let input = std::fs::read_to_string(&args[0]).expect("read drivers");
  let mut out = std::io::BufWriter::new(std::fs::File::create(&args[1]).expect("create out"));
  let workdir = args.get(2).cloned().unwrap_or_else(|| "/verif/work/files".to_string());
  std::panic::set_hook(Box::new(|_| {}));
  for line in input.lines() {
    if line.trim().is_empty() {
      continue;
    }
    let d: Value = serde_json::from_str(line).expect("driver json");
    match d["flavor"].as_str().unwrap_or("sync") {
      "sync" => drive::<sync::Arena>(&d, &mut out, &workdir),
      _ => drive::<unsync::Arena>(&d, &mut out, &workdir),
    }
  }
  out.flush().unwrap();
}
