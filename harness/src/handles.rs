//! `rvh handles`: lifetimes of arena values and handles (C13). Drives and logs.

use crate::common::*;
use crate::seq::{ArenaX, build};
use rarena_allocator::{Allocator, Buffer, BytesMut, BytesRefMut, Owned, RefMut, sync, unsync};
use serde_json::{Value, json};
use std::cell::Cell;
use std::collections::BTreeMap;
use std::io::Write;

thread_local! { static DROPS: Cell<u64> = const { Cell::new(0) }; }

/// a type that needs dropping (size 8, align 8)
pub struct Dc(#[allow(dead_code)] u64);
impl Drop for Dc {
  fn drop(&mut self) {
    DROPS.with(|d| d.set(d.get() + 1));
  }
}

/// zero-sized, with drop glue
pub struct Zdc;
impl Drop for Zdc {
  fn drop(&mut self) {
    DROPS.with(|d| d.set(d.get() + 1));
  }
}

enum H<A: Allocator + 'static> {
  ZdcR(RefMut<'static, Zdc, A>),
  ZdcO(Owned<Zdc, A>),
  Bytes(BytesRefMut<'static, A>),
  BytesO(BytesMut<A>),
  Typed(RefMut<'static, u64, A>),
  TypedO(Owned<u64, A>),
  Zst(RefMut<'static, (), A>),
  ZstO(Owned<(), A>),
  DcR(RefMut<'static, Dc, A>),
  DcO(Owned<Dc, A>),
}

impl<A: Allocator> H<A> {
  fn detach(&mut self) {
    unsafe {
      match self {
        H::Bytes(h) => h.detach(),
        H::BytesO(h) => h.detach(),
        H::Typed(h) => h.detach(),
        H::TypedO(h) => h.detach(),
        H::Zst(h) => h.detach(),
        H::ZstO(h) => h.detach(),
        H::ZdcR(h) => h.detach(),
        H::ZdcO(h) => h.detach(),
        H::DcR(h) => h.detach(),
        H::DcO(h) => h.detach(),
      }
    }
  }
}

fn run_driver<A: ArenaX + Clone>(d: &Value, out: &mut impl Write, workdir: &str) {
  let cfg = &d["cfg"];
  let backend = cfg["backend"].as_str().unwrap_or("vec");
  // read-only arenas: the file is created writable, closed, and opened again with map / map_copy_read_only
  let built = if backend == "file_ro" || backend == "file_cro" {
    build::<A>(cfg, "file", workdir).and_then(|(a, path)| {
      drop(a);
      let p = path.clone().expect("file path");
      let o = crate::seq::options_of(cfg).with_read(true);
      let r = unsafe { if backend == "file_ro" { o.map::<A, _>(&p) } else { o.map_copy_read_only::<A, _>(&p) } };
      r.map(|a| (a, path)).map_err(|e| format!("{e:?}"))
    })
  } else {
    build::<A>(cfg, backend, workdir)
  };
  let (arena, file) = match built {
    Ok(x) => x,
    Err(e) => {
      writeln!(out, "{}", json!({"ev": "reset", "id": d["id"], "backend": backend, "ok": false, "err": e})).unwrap();
      return;
    }
  };
  writeln!(out, "{}", json!({"ev": "reset", "id": d["id"], "backend": backend, "ok": true, "flavor": if A::SYNC {"sync"} else {"unsync"}})).unwrap();
  // arena values: leaked boxes so that borrowed handles can be 'static; dropped explicitly
  let mut vals: BTreeMap<u32, *mut A> = BTreeMap::new();
  vals.insert(0, Box::into_raw(Box::new(arena)));
  let mut next_v = 1u32;
  let mut hs: BTreeMap<u32, H<A>> = BTreeMap::new();
  let mut next_h = 1u32;
  let _ = take_api();
  DROPS.with(|x| x.set(0));
  for (i, op) in d["ops"].as_array().unwrap().iter().enumerate() {
    let k = op["k"].as_str().unwrap();
    // announce the op: if the process dies inside the arena the death is attributable
    writeln!(out, "{}", json!({"ev": "begin", "i": i + 1, "op": op})).unwrap();
    out.flush().unwrap();
    let owned = op["o"].as_bool().unwrap_or(false);
    let zero = op["z"].as_bool().unwrap_or(false);
    let d0 = DROPS.with(|x| x.get());
    let alive: Option<&'static A> = vals.values().next().map(|p| unsafe { &**p });
    let r = std::panic::catch_unwind(std::panic::AssertUnwindSafe(|| -> &'static str {
      match k {
        "ab" | "at" | "adc" => {
          let a = match alive {
            Some(a) => a,
            None => return "skip",
          };
          let h = unsafe {
            match (k, owned) {
              ("ab", false) => H::Bytes(a.alloc_bytes(if zero { 0 } else { 8 }).unwrap()),
              ("ab", true) => H::BytesO(a.alloc_bytes_owned(if zero { 0 } else { 8 }).unwrap()),
              ("at", false) if zero => H::Zst(a.alloc::<()>().unwrap()),
              ("at", true) if zero => H::ZstO(a.alloc_owned::<()>().unwrap()),
              ("at", false) => H::Typed(a.alloc::<u64>().unwrap()),
              ("at", true) => H::TypedO(a.alloc_owned::<u64>().unwrap()),
              ("adc", false) if zero => {
                let mut h = a.alloc::<Zdc>().unwrap();
                h.write(Zdc);
                H::ZdcR(h)
              }
              ("adc", true) if zero => {
                let mut h = a.alloc_owned::<Zdc>().unwrap();
                h.write(Zdc);
                H::ZdcO(h)
              }
              ("adc", false) => {
                let mut h = a.alloc::<Dc>().unwrap();
                h.write(Dc(7));
                H::DcR(h)
              }
              (_, _) => {
                let mut h = a.alloc_owned::<Dc>().unwrap();
                h.write(Dc(7));
                H::DcO(h)
              }
            }
          };
          hs.insert(next_h, h);
          next_h += 1;
          "ok"
        }
        "drop" => match hs.remove(&(op["h"].as_u64().unwrap() as u32)) {
          Some(h) => {
            drop(h);
            "ok"
          }
          None => "skip",
        },
        "detach" => match hs.get_mut(&(op["h"].as_u64().unwrap() as u32)) {
          Some(h) => {
            h.detach();
            "ok"
          }
          None => "skip",
        },
        "clone" => match alive {
          Some(a) => {
            vals.insert(next_v, Box::into_raw(Box::new(a.clone())));
            next_v += 1;
            "ok"
          }
          None => "skip",
        },
        "dropval" => match vals.remove(&(op["v"].as_u64().unwrap() as u32)) {
          Some(p) => {
            unsafe { drop(Box::from_raw(p)) };
            "ok"
          }
          None => "skip",
        },
        "rod" => match alive {
          Some(a) => {
            a.remove_on_drop(op["b"].as_bool().unwrap());
            "ok"
          }
          None => "skip",
        },
        _ => panic!("bad op"),
      }
    }));
    let res = r.unwrap_or("panic");
    let api = take_api();
    let unmounts = api.iter().filter(|e| e["k"] == "unmount").count();
    let refs: i64 = vals.values().next().map(|p| unsafe { (**p).refs() as i64 }).unwrap_or(-1);
    let fe = file.as_ref().map(|p| p.exists()).unwrap_or(false);
    writeln!(out, "{}", json!({"ev": "op", "i": i + 1, "op": op, "res": res, "refs": refs, "unmounts": unmounts,
                               "drops": DROPS.with(|x| x.get()) - d0, "file_exists": fe})).unwrap();
    if res == "panic" {
      break;
    }
  }
  // leftovers: forget (never dropped behind the log's back)
  for (_, h) in hs {
    std::mem::forget(h);
  }
  vals.clear();
  if let Some(p) = file {
    let _ = std::fs::remove_file(p);
  }
  let _ = take_api();
}

pub fn run(args: &[String]) {
  let input = std::fs::read_to_string(&args[0]).expect("read drivers");
  let mut out = std::io::BufWriter::new(std::fs::File::create(&args[1]).expect("create out"));
  let workdir = args.get(2).cloned().unwrap_or_else(|| "/verif/work/files".to_string());
  std::panic::set_hook(Box::new(|_| {}));
  install_api_only_hooks();
  for line in input.lines() {
    if line.trim().is_empty() {
      continue;
    }
    let d: Value = serde_json::from_str(line).expect("driver json");
    match d["cfg"]["flavor"].as_str().unwrap_or("sync") {
      "sync" => run_driver::<sync::Arena>(&d, &mut out, &workdir),
      _ => run_driver::<unsync::Arena>(&d, &mut out, &workdir),
    }
  }
  out.flush().unwrap();
}
