//! Sequential driver: interprets op lists on N arenas in lock-step and logs one event per op.

use crate::common::*;
use crate::with_type;
use rarena_allocator::{
  Allocator, ArenaPosition, Error, Freelist, Options, sync, unsync, verif::FreelistSnapshot,
};
use serde_json::{Value, json};
use std::collections::BTreeMap;
use std::io::Write;
use std::panic::{AssertUnwindSafe, catch_unwind};

pub trait ArenaX: Allocator + Clone + std::fmt::Debug + 'static {
  const SYNC: bool;
  fn snap(&self, max: usize) -> FreelistSnapshot;
  fn truncate_x(&mut self, n: usize) -> Option<std::io::Result<()>>;
  fn path_string(&self) -> Option<String>;
}

impl ArenaX for sync::Arena {
  const SYNC: bool = true;
  fn snap(&self, max: usize) -> FreelistSnapshot {
    self.verif_freelist_snapshot(max)
  }
  fn truncate_x(&mut self, _n: usize) -> Option<std::io::Result<()>> {
    None
  }
  fn path_string(&self) -> Option<String> {
    self.path().map(|p| p.to_string_lossy().into_owned())
  }
}

impl ArenaX for unsync::Arena {
  const SYNC: bool = false;
  fn snap(&self, max: usize) -> FreelistSnapshot {
    self.verif_freelist_snapshot(max)
  }
  fn truncate_x(&mut self, n: usize) -> Option<std::io::Result<()>> {
    Some(self.truncate(n))
  }
  fn path_string(&self) -> Option<String> {
    self.path().map(|p| p.to_string_lossy().into_owned())
  }
}

pub fn freelist_of(s: &str) -> Freelist {
  match s {
    "none" => Freelist::None,
    "opt" => Freelist::Optimistic,
    "pes" => Freelist::Pessimistic,
    _ => panic!("bad freelist kind {s}"),
  }
}

fn flatten_either(e: rarena_allocator::either::Either<std::io::Error, std::io::Error>) -> std::io::Error {
  match e {
    rarena_allocator::either::Either::Left(e) | rarena_allocator::either::Either::Right(e) => e,
  }
}

pub fn options_of(cfg: &Value) -> Options {
  let mut o = Options::new()
    .with_capacity(cfg["cap"].as_u64().unwrap() as u32)
    .with_reserved(cfg["reserved"].as_u64().unwrap_or(0) as u32)
    .with_freelist(freelist_of(cfg["kind"].as_str().unwrap_or("opt")))
    .with_minimum_segment_size(cfg["minseg"].as_u64().unwrap_or(20) as u32)
    .with_unify(cfg["unify"].as_bool().unwrap_or(false))
    .with_magic_version(cfg["magic"].as_u64().unwrap_or(0) as u16);
  if let Some(a) = cfg["maxalign"].as_u64() {
    o = o.with_maximum_alignment(a as usize);
  }
  if let Some(r) = cfg["retries"].as_u64() {
    o = o.with_maximum_retries(r as u8);
  }
  // file-backed arenas may live at an offset into the file (ignored by the other backends)
  if let Some(off) = cfg["offset"].as_u64() {
    o = o.with_offset(off);
  }
  o
}

pub fn build<A: ArenaX>(
  cfg: &Value,
  backend: &str,
  workdir: &str,
) -> Result<(A, Option<std::path::PathBuf>), String> {
  let opts = options_of(cfg);
  match backend {
    "vec" => opts.alloc::<A>().map(|a| (a, None)).map_err(|e| match e {
      Error::InsufficientSpace { .. } => "InsufficientSpace".to_string(),
      other => format!("{other:?}"),
    }),
    "anon" => opts
      .map_anon::<A>()
      .map(|a| (a, None))
      .map_err(|e| format!("{:?}", e.kind())),
    "file" => {
      let p = scratch_path(workdir, "seq");
      // "pb": the *_with_path_builder constructors instead of the plain ones
      let o = opts.with_create_new(true).with_read(true).with_write(true);
      let r = unsafe {
        if cfg["pb"].as_bool().unwrap_or(false) {
          let p2 = p.clone();
          o.map_mut_with_path_builder::<A, _, std::io::Error>(move || Ok(p2)).map_err(flatten_either)
        } else {
          o.map_mut::<A, _>(&p)
        }
      };
      match r {
        Ok(a) => Ok((a, Some(p))),
        Err(e) => {
          let _ = std::fs::remove_file(&p);
          Err(format!("{:?}", e.kind()))
        }
      }
    }
    _ => panic!("bad backend {backend}"),
  }
}

fn alloc_typed<T: 'static, A: ArenaX>(
  arena: &'static A,
  owned: bool,
) -> Result<Box<dyn AnyHandle>, Error> {
  unsafe {
    if owned {
      arena
        .alloc_owned::<T>()
        .map(|h| Box::new(h) as Box<dyn AnyHandle>)
    } else {
      arena.alloc::<T>().map(|h| Box::new(h) as Box<dyn AnyHandle>)
    }
  }
}

fn alloc_aligned<T: 'static, A: ArenaX>(
  arena: &'static A,
  n: u32,
  owned: bool,
) -> Result<Box<dyn AnyHandle>, Error> {
  if owned {
    arena
      .alloc_aligned_bytes_owned::<T>(n)
      .map(|h| Box::new(h) as Box<dyn AnyHandle>)
  } else {
    arena
      .alloc_aligned_bytes::<T>(n)
      .map(|h| Box::new(h) as Box<dyn AnyHandle>)
  }
}

/// request size: "nx" (exact decimal string, for values TLC cannot hold) overrides "n"
fn req_size(op: &Value) -> u32 {
  match op.get("nx").and_then(|v| v.as_str()) {
    Some(s) => s.parse::<u64>().unwrap() as u32,
    None => op["n"].as_u64().unwrap() as u32,
  }
}

pub trait Driven {
  fn live_ids(&self) -> Vec<u32>;
  fn describe(&mut self, cfg: &Value) -> Value;
  fn apply(&mut self, op: &Value) -> Value;
  fn finish(&mut self);
}

/// freelist kind as the arena's Debug output shows it ("Optimistic" / "Pessimistic" / "None")
fn debug_kind<A: ArenaX>(a: &A) -> String {
  let d = format!("{a:?}");
  for k in ["Optimistic", "Pessimistic", "None"] {
    if d.contains(&format!("freelist: {k}")) {
      return k.to_string();
    }
  }
  "?".to_string()
}

// The in-buffer header is `repr(C, align(8))` with 20 bytes of fields: its last 4 bytes are padding, written with whatever
// the compiler left there (indeterminate, and different after any refactoring of the constructors). They carry no state and
// are logged as zero so that byte comparisons (across backends, cleared vs fresh, before vs after reopen) never see them.
const HEADER_SIZE: usize = 24;
const HEADER_FIELDS: usize = 20;

fn file_rle(p: &std::path::Path, reserved: usize, offset: usize) -> (u64, Value) {
  match std::fs::read(p) {
    Ok(b) => {
      // the file as the arena sees it: from the mapping offset on
      let mut b = b[offset.min(b.len())..].to_vec();
      let hoff = reserved.div_ceil(8) * 8 + 8;
      for i in (hoff + HEADER_FIELDS)..(hoff + HEADER_SIZE).min(b.len()) {
        b[i] = 0;
      }
      (b.len() as u64, rle(&b))
    }
    Err(_) => (0, json!([])),
  }
}

/// what the descriptive accessors of one arena value report (C16: "the mode and options the arena was created with")
fn mode_of<A: ArenaX>(a: &A) -> Value {
  json!({
    "data_offset": a.data_offset(), "reserved_bytes": a.reserved_bytes(), "reserved_len": a.reserved_slice().len(),
    "unify": a.unify(), "read_only": a.read_only(), "is_map": a.is_map(), "is_ondisk": a.is_ondisk(),
    "is_inmemory": a.is_inmemory(), "is_map_anon": a.is_map_anon(), "is_map_file": a.is_map_file(),
    "path": a.path_string().unwrap_or_default(), "magic_version": a.magic_version(), "version": a.version(),
    "page_size": a.page_size(), "minimum_segment_size": sat(a.minimum_segment_size() as u64), "kind": debug_kind(a),
    "discarded": sat(a.discarded() as u64), "refs": a.refs(),
  })
}

pub struct Inst<A: ArenaX> {
  arena: *mut A,
  // further arena values of the same arena (Clone), newest last
  clones: Vec<*mut A>,
  handles: BTreeMap<u32, Box<dyn AnyHandle>>,
  next_id: u32,
  file: Option<std::path::PathBuf>,
  backend: String,
  dead: bool,
  closed: bool,
  cfg: Value,
}

impl<A: ArenaX> Inst<A> {
  pub fn new(arena: A, file: Option<std::path::PathBuf>, backend: &str) -> Self {
    let mut me = Self {
      arena: Box::into_raw(Box::new(arena)),
      clones: Vec::new(),
      handles: BTreeMap::new(),
      next_id: 1,
      file,
      backend: backend.to_string(),
      dead: false,
      closed: false,
      cfg: Value::Null,
    };
    // mark the reserved prefix so that any arena write into it is visible
    unsafe {
      let r = me.a().reserved_slice_mut();
      for b in r.iter_mut() {
        *b = RESERVED_PATTERN;
      }
    }
    let _ = &mut me;
    me
  }

  #[inline]
  fn a(&self) -> &'static A {
    unsafe { &*self.arena }
  }

  fn obs(&self) -> Value {
    let a = self.a();
    let (fl, trunc) = a.snap(512);
    json!({
      "alloc": sat(a.allocated() as u64),
      "disc": sat(a.discarded() as u64),
      "rem": sat(a.remaining() as u64),
      "cap": sat(a.capacity() as u64),
      "minseg": sat(a.minimum_segment_size() as u64),
      "refs": sat(a.refs() as u64),
      "doff": sat(a.data_offset() as u64),
      "fl": fl.iter().map(|(o, s, _)| json!([sat(*o as u64), sat(*s as u64)])).collect::<Vec<_>>(),
      "fltrunc": trunc,
    })
  }

  fn mem(&self) -> Value {
    let a = self.a();
    let doff = a.data_offset();
    // (the layout is told by the data offset, not by what unify() claims: the header sits in the buffer right below it)
    if a.unify() && doff >= HEADER_SIZE + 8 {
      let mut m = a.memory().to_vec();
      for i in (doff - (HEADER_SIZE - HEADER_FIELDS))..doff.min(m.len()) {
        m[i] = 0;
      }
      rle(&m)
    } else {
      rle(a.memory())
    }
  }

  fn ok_handle(&mut self, mut h: Box<dyn AnyHandle>, nofill: bool) -> (Value, Value) {
    let id = self.next_id;
    self.next_id += 1;
    let m = h.meta();
    let base = self.a().raw_ptr() as usize;
    let (ptr_off, amod) = match h.addr() {
      Some(p) => (sat_i(p as i128 - base as i128), (p % 64) as i64),
      None => (-1, -1),
    };
    let mem0 = self.mem();
    // a handle that reaches beyond the arena is logged as it is but never written through
    let inside = m[2] + m[3] <= self.a().capacity() as u64;
    if !nofill && inside {
      h.fill(pattern(id));
    }
    let owned = h.is_owned();
    self.handles.insert(id, h);
    (
      json!({"k": "ok", "h": id, "mo": sat(m[0]), "ms": sat(m[1]), "po": sat(m[2]), "ps": sat(m[3]),
             "ptr_off": ptr_off, "amod": amod, "owned": owned, "pat": if nofill {0} else {pattern(id) as u32}}),
      mem0,
    )
  }

  fn invalidate_above(&mut self, limit: u64) -> Vec<u32> {
    let ids: Vec<u32> = self
      .handles
      .iter()
      .filter(|(_, h)| {
        let m = h.meta();
        let hi = (m[0] + m[1]).max(m[2] + m[3]);
        m[3] > 0 && hi > limit || m[1] > 0 && hi > limit
      })
      .map(|(k, _)| *k)
      .collect();
    for id in &ids {
      let mut h = self.handles.remove(id).unwrap();
      h.detach_h();
      drop(h);
    }
    ids
  }

  fn drop_clones(&mut self) {
    while let Some(c) = self.clones.pop() {
      unsafe { drop(Box::from_raw(c)) };
    }
  }

  fn apply_in(&mut self, op: &Value) -> Value {
    // "via": "clone" = the call goes through the newest other arena value of the same arena
    let via_clone = op.get("via").and_then(|v| v.as_str()) == Some("clone") && !self.clones.is_empty();
    let a: &'static A = if via_clone { unsafe { &**self.clones.last().unwrap() } } else { self.a() };
    let k = op["k"].as_str().unwrap();
    let owned = op["o"].as_bool().unwrap_or(false);
    let nofill = op["nofill"].as_bool().unwrap_or(false);
    let mut mem0 = Value::Null;
    let mut extra = json!({});
    let res = match k {
      "ab" => {
        let n = req_size(op);
        let r = if owned {
          a.alloc_bytes_owned(n).map(|h| Box::new(h) as Box<dyn AnyHandle>)
        } else {
          a.alloc_bytes(n).map(|h| Box::new(h) as Box<dyn AnyHandle>)
        };
        match r {
          Ok(h) => {
            let (r, m0) = self.ok_handle(h, nofill);
            mem0 = m0;
            r
          }
          Err(e) => json!({"k": err_kind(&e)}),
        }
      }
      "at" => {
        let s = op["s"].as_u64().unwrap();
        let al = op["a"].as_u64().unwrap();
        let r = with_type!(s, al, alloc_typed, A, a, owned).expect("type not in menu");
        match r {
          Ok(h) => {
            let (r, m0) = self.ok_handle(h, nofill);
            mem0 = m0;
            r
          }
          Err(e) => json!({"k": err_kind(&e)}),
        }
      }
      "aa" => {
        let s = op["s"].as_u64().unwrap();
        let al = op["a"].as_u64().unwrap();
        let n = req_size(op);
        let r = with_type!(s, al, alloc_aligned, A, a, n, owned).expect("type not in menu");
        match r {
          Ok(h) => {
            let (r, m0) = self.ok_handle(h, nofill);
            mem0 = m0;
            r
          }
          Err(e) => json!({"k": err_kind(&e)}),
        }
      }
      "drop" | "leak" | "dealloc" | "detach" | "fill" => {
        let id = op["h"].as_u64().unwrap() as u32;
        if !self.handles.contains_key(&id) {
          json!({"k": "skip"})
        } else {
          match k {
            "detach" => {
              self.handles.get_mut(&id).unwrap().detach_h();
              json!({"k": "ok"})
            }
            "fill" => {
              self.handles.get_mut(&id).unwrap().fill(pattern(id));
              json!({"k": "ok"})
            }
            "drop" => {
              let h = self.handles.remove(&id).unwrap();
              drop(h);
              json!({"k": "ok"})
            }
            "leak" => {
              let mut h = self.handles.remove(&id).unwrap();
              h.detach_h();
              drop(h);
              json!({"k": "ok"})
            }
            _ => {
              let mut h = self.handles.remove(&id).unwrap();
              let m = h.meta();
              h.detach_h();
              drop(h);
              let r = unsafe { a.dealloc(m[0] as u32, m[1] as u32) };
              json!({"k": "ok", "ret": r})
            }
          }
        }
      }
      "mkclone" => {
        let c = self.a().clone();
        self.clones.push(Box::into_raw(Box::new(c)));
        json!({"k": "ok"})
      }
      "dropclone" => match self.clones.pop() {
        Some(c) => {
          unsafe { drop(Box::from_raw(c)) };
          json!({"k": "ok"})
        }
        None => json!({"k": "skip"}),
      },
      // what the newest other arena value reports (pure reads: header through the shared memory, cached fields)
      "cobs" => match self.clones.last() {
        Some(c) => {
          let c: &A = unsafe { &**c };
          json!({"k": "ok", "cap": sat(c.capacity() as u64), "rem": sat(c.remaining() as u64), "alloc": sat(c.allocated() as u64),
                 "descr": mode_of(c), "descr0": mode_of(a)})
        }
        None => json!({"k": "skip"}),
      },
      "discard" => match a.discard_freelist() {
        Ok(v) => json!({"k": "ok", "v": sat(v as u64)}),
        Err(e) => json!({"k": err_kind(&e)}),
      },
      "setmin" => {
        // "vx": the exact value when it does not fit TLC's integers ("v" is then its saturation)
        let v = op.get("vx").and_then(|x| x.as_str()).and_then(|x| x.parse::<u64>().ok()).unwrap_or_else(|| op["v"].as_u64().unwrap());
        a.set_minimum_segment_size(v as u32);
        json!({"k": "ok"})
      }
      "incdisc" => {
        a.increase_discarded(op["v"].as_u64().unwrap() as u32);
        json!({"k": "ok"})
      }
      "rewind" => {
        // positions are given as decimal strings so that full-width values survive JSON/TLC
        let v: i128 = op["vx"].as_str().map(|s| s.parse().unwrap()).unwrap_or_else(|| op["v"].as_i64().unwrap() as i128);
        let pos = match op["p"].as_str().unwrap() {
          "start" => ArenaPosition::Start(v as u32),
          "end" => ArenaPosition::End(v as u32),
          "cur" => ArenaPosition::Current(v as i64),
          p => panic!("bad pos {p}"),
        };
        unsafe { a.rewind(pos) };
        let inv = self.invalidate_above(a.allocated() as u64);
        extra = json!({"invalidated": inv});
        json!({"k": "ok"})
      }
      "clear" => {
        let inv = self.invalidate_above(0);
        // zero-sized handles are harmless; drop them too
        self.handles.clear();
        // no handle survives clear(): handle numbering restarts, as on a fresh arena
        self.next_id = 1;
        extra = json!({"invalidated": inv});
        match unsafe { a.clear() } {
          Ok(()) => json!({"k": "ok"}),
          Err(e) => json!({"k": err_kind(&e)}),
        }
      }
      "truncate" => {
        let inv = self.invalidate_above(0);
        self.handles.clear();
        extra = json!({"invalidated": inv});
        let n = op["v"].as_u64().unwrap() as usize;
        // the length of the backing file afterwards, and the offset at which the arena is mapped in it
        let flen = |me: &Self| me.file.as_ref().and_then(|p| std::fs::metadata(p).ok()).map(|m| sat(m.len())).unwrap_or(0);
        let foff = self.cfg["offset"].as_u64().unwrap_or(0);
        match unsafe { (*self.arena).truncate_x(n) } {
          None => json!({"k": "na"}),
          Some(Ok(())) if self.file.is_some() => json!({"k": "ok", "flen": flen(self), "foff": foff}),
          Some(Ok(())) => json!({"k": "ok"}),
          Some(Err(e)) => json!({"k": "err_io", "kind": format!("{:?}", e.kind())}),
        }
      }
      // the unsafe accessors that hand out mutable access: documented to panic on a read-only arena (the pointer / slice is
      // never used). Outside "the safe API" of C09: logged for the implementation-level model only.
      "rawmut" => {
        let off = op["off"].as_u64().unwrap_or(40) as usize;
        let n = op["n"].as_u64().unwrap_or(8) as usize;
        let w = op["w"].as_str().unwrap_or("bytes");
        let r = catch_unwind(AssertUnwindSafe(|| unsafe {
          match w {
            "bytes" => a.get_bytes_mut(off, n).len(),
            "ptr" => a.get_pointer_mut(off) as usize,
            _ => a.get_aligned_pointer_mut::<u64>(off).as_ptr() as usize,
          }
        }));
        json!({"k": if r.is_ok() { "ok" } else { "refused" }})
      }
      "flush" => match a.flush() {
        Ok(()) => json!({"k": "ok"}),
        Err(e) => json!({"k": "err_io", "kind": format!("{:?}", e.kind())}),
      },
      "reopen" => {
        // close (all handles are given up = detached) and open the same file again
        let inv = self.invalidate_above(0);
        self.handles.clear();
        self.next_id = 1;
        let path = self.file.clone().expect("reopen needs a file-backed arena");
        if op["flush"].as_bool().unwrap_or(false) {
          let _ = a.flush();
        }
        self.drop_clones();
        unsafe { drop(Box::from_raw(self.arena)) };
        self.closed = true;
        let _ = take_api();
        let reserved_of_file = self.cfg["reserved"].as_u64().unwrap_or(0) as usize;
        let offset_of_file = self.cfg["offset"].as_u64().unwrap_or(0) as usize;
        let (len0, file0) = file_rle(&path, reserved_of_file, offset_of_file);
        let cfg = self.cfg.clone();
        let mut o = options_of(&cfg);
        // capacity on reopen: absent (0), or an explicit value
        let capv = op["cap"].as_u64().unwrap_or(0);
        o = o.maybe_capacity(if capv == 0 { None } else { Some(capv as u32) });
        if let Some(m) = op.get("magic").and_then(|v| v.as_u64()) {
          o = o.with_magic_version(m as u16);
        }
        if let Some(kd) = op.get("kind").and_then(|v| v.as_str()) {
          o = o.with_freelist(freelist_of(kd));
        }
        let variant = op["variant"].as_str().unwrap();
        let pb = cfg["pb"].as_bool().unwrap_or(false);
        let r = unsafe {
          let p2 = path.clone();
          let pbf = move || -> Result<std::path::PathBuf, std::io::Error> { Ok(p2) };
          match variant {
            "map_mut" if pb => o.with_read(true).with_write(true).with_create(op["create"].as_bool().unwrap_or(false))
              .map_mut_with_path_builder::<A, _, std::io::Error>(pbf).map_err(flatten_either),
            "map_copy" if pb => o.with_read(true).with_write(true).map_copy_with_path_builder::<A, _, std::io::Error>(pbf).map_err(flatten_either),
            "map" if pb => o.with_read(true).map_with_path_builder::<A, _, std::io::Error>(pbf).map_err(flatten_either),
            "map_copy_ro" if pb => o.with_read(true).map_copy_read_only_with_path_builder::<A, _, std::io::Error>(pbf).map_err(flatten_either),
            "map_mut" => o.with_read(true).with_write(true).with_create(op["create"].as_bool().unwrap_or(false)).map_mut::<A, _>(&path),
            "map_copy" => o.with_read(true).with_write(true).map_copy::<A, _>(&path),
            "map" => o.with_read(true).map::<A, _>(&path),
            "map_copy_ro" => o.with_read(true).map_copy_read_only::<A, _>(&path),
            v => panic!("bad variant {v}"),
          }
        };
        let (len1, file1) = file_rle(&path, reserved_of_file, offset_of_file);
        match r {
          Ok(arena) => {
            self.arena = Box::into_raw(Box::new(arena));
            self.closed = false;
            let a2 = self.a();
            extra = json!({"invalidated": inv, "file_before": {"len": len0, "rle": file0}, "file_after": {"len": len1, "rle": file1},
                           "descr": {"read_only": a2.read_only(), "magic_version": a2.magic_version(), "version": a2.version(),
                                     "kind": debug_kind(a2), "unify": a2.unify(), "is_map_file": a2.is_map_file(),
                                     "is_map": a2.is_map(), "is_ondisk": a2.is_ondisk(), "is_inmemory": a2.is_inmemory(),
                                     "is_map_anon": a2.is_map_anon(), "has_path": a2.path_string().is_some(),
                                     "page_size": a2.page_size(), "os_page_size": unsafe { libc::sysconf(libc::_SC_PAGESIZE) },
                                     "reserved_bytes": a2.reserved_bytes(), "data_offset": a2.data_offset(),
                                     "reserved_len": a2.reserved_slice().len(), "capacity": a2.capacity()}});
            json!({"k": "ok"})
          }
          Err(e) => {
            // no arena any more: the instance is finished
            let ev = json!({"res": {"k": "err_io", "kind": format!("{:?}", e.kind())}, "invalidated": inv,
                            "file_before": {"len": len0, "rle": file0}, "file_after": {"len": len1, "rle": file1}});
            return ev;
          }
        }
      }
      _ => panic!("unknown op {k}"),
    };
    let mut ev = json!({"res": res, "obs": self.obs(), "mem": self.mem(), "api": take_api()});
    if !mem0.is_null() {
      ev["mem0"] = mem0;
    }
    if let Some(m) = extra.as_object() {
      for (k, v) in m {
        ev[k] = v.clone();
      }
    }
    ev
  }
}

impl<A: ArenaX> Driven for Inst<A> {
  fn live_ids(&self) -> Vec<u32> {
    if self.dead { Vec::new() } else { self.handles.keys().cloned().collect() }
  }

  fn describe(&mut self, cfg: &Value) -> Value {
    self.cfg = cfg.clone();
    let a = self.a();
    let opts = options_of(cfg);
    json!({
      "flavor": if A::SYNC {"sync"} else {"unsync"},
      "backend": self.backend,
      "ok": true,
      "data_offset": a.data_offset(),
      "opt_data_offset": opts.data_offset::<A>(),
      "opt_data_offset_unify": opts.data_offset_unify::<A>(),
      "reserved_bytes": a.reserved_bytes(),
      "reserved_len": a.reserved_slice().len(),
      "capacity": a.capacity(),
      "unify": a.unify(),
      "read_only": a.read_only(),
      "is_map": a.is_map(),
      "is_ondisk": a.is_ondisk(),
      "is_inmemory": a.is_inmemory(),
      "is_map_anon": a.is_map_anon(),
      "is_map_file": a.is_map_file(),
      "has_path": a.path_string().is_some(),
      "path_matches": match (&self.file, a.path_string()) { (Some(f), Some(p)) => f.to_string_lossy() == p, (None, None) => true, _ => false },
      "magic_version": a.magic_version(),
      "version": a.version(),
      "page_size": a.page_size(),
      "os_page_size": unsafe { libc::sysconf(libc::_SC_PAGESIZE) },
      "minimum_segment_size": a.minimum_segment_size(),
      "kind": debug_kind(a),
      "base_mod": (a.raw_ptr() as usize) % 4096,
      "obs": self.obs(),
      "mem": self.mem(),
    })
  }

  fn apply(&mut self, op: &Value) -> Value {
    if self.dead || self.closed {
      return json!({"res": {"k": "dead"}});
    }
    let r = catch_unwind(AssertUnwindSafe(|| self.apply_in(op)));
    match r {
      Ok(v) => v,
      Err(p) => {
        self.dead = true;
        let msg = p
          .downcast_ref::<String>()
          .cloned()
          .or_else(|| p.downcast_ref::<&str>().map(|s| s.to_string()))
          .unwrap_or_default();
        let _ = take_api();
        json!({"res": {"k": "panic", "msg": msg}})
      }
    }
  }

  fn finish(&mut self) {
    // leak all handles (detached) and drop the arena
    let ids: Vec<u32> = self.handles.keys().cloned().collect();
    for id in ids {
      let mut h = self.handles.remove(&id).unwrap();
      if !self.dead {
        h.detach_h();
        drop(h);
      } else {
        std::mem::forget(h);
      }
    }
    self.drop_clones();
    if !self.closed {
      unsafe {
        drop(Box::from_raw(self.arena));
      }
    }
    if let Some(p) = self.file.take() {
      let _ = std::fs::remove_file(p);
    }
    let _ = take_api();
  }
}

pub fn make_inst(cfg: &Value, flavor: &str, backend: &str, workdir: &str) -> Result<Box<dyn Driven>, String> {
  match flavor {
    "sync" => build::<sync::Arena>(cfg, backend, workdir)
      .map(|(a, f)| Box::new(Inst::new(a, f, backend)) as Box<dyn Driven>),
    "unsync" => build::<unsync::Arena>(cfg, backend, workdir)
      .map(|(a, f)| Box::new(Inst::new(a, f, backend)) as Box<dyn Driven>),
    _ => panic!("bad flavor {flavor}"),
  }
}

/// `rvh seq <drivers.ndjson> <out.ndjson> <workdir>`
pub fn run(args: &[String]) {
  let input = std::fs::read_to_string(&args[0]).expect("read drivers");
  let mut out = std::io::BufWriter::new(std::fs::File::create(&args[1]).expect("create out"));
  let workdir = args.get(2).cloned().unwrap_or_else(|| "/verif/work/files".to_string());
  let flush = args.iter().any(|a| a == "--flush");
  std::panic::set_hook(Box::new(|_| {}));
  install_api_only_hooks();
  for line in input.lines() {
    if line.trim().is_empty() {
      continue;
    }
    let d: Value = serde_json::from_str(line).expect("driver json");
    let cfg = &d["cfg"];
    let mut insts: Vec<Option<Box<dyn Driven>>> = Vec::new();
    let mut descr: Vec<Value> = Vec::new();
    for ar in cfg["arenas"].as_array().unwrap() {
      let flavor = ar[0].as_str().unwrap();
      let backend = ar[1].as_str().unwrap();
      match make_inst(cfg, flavor, backend, &workdir) {
        Ok(mut i) => {
          descr.push(i.describe(cfg));
          insts.push(Some(i));
        }
        Err(e) => {
          descr.push(json!({"flavor": flavor, "backend": backend, "ok": false, "err": e}));
          insts.push(None);
        }
      }
    }
    let _ = take_api();
    writeln!(out, "{}", json!({"ev": "reset", "id": d["id"], "cfg": cfg, "arenas": descr})).unwrap();
    if flush {
      out.flush().unwrap();
    }
    for (i, op0) in d["ops"].as_array().unwrap().iter().enumerate() {
      // relative handle reference "hr": the (hr mod n)-th live handle of the first arena
      let mut op_owned = op0.clone();
      if let Some(hr) = op0.get("hr").and_then(|v| v.as_u64()) {
        let ids = insts.iter().flatten().next().map(|x| x.live_ids()).unwrap_or_default();
        let h = if ids.is_empty() { 0 } else { ids[(hr as usize) % ids.len()] };
        op_owned["h"] = json!(h);
      }
      let op = &op_owned;
      if flush {
        // announce the op before executing it, so that a crash of the process is attributable
        writeln!(out, "{}", json!({"ev": "begin", "i": i + 1, "op": op})).unwrap();
        out.flush().unwrap();
      }
      let mut evs = Vec::new();
      for (ai, inst) in insts.iter_mut().enumerate() {
        // "only": 1-based arena indices the op applies to (absent = all)
        let applies = match op.get("only").and_then(|o| o.as_array()) {
          Some(list) => list.iter().any(|v| v.as_u64() == Some(ai as u64 + 1)),
          None => true,
        };
        if !applies {
          evs.push(json!({"res": {"k": "notapplied"}}));
          continue;
        }
        match inst {
          Some(x) => evs.push(x.apply(op)),
          None => evs.push(json!({"res": {"k": "noarena"}})),
        }
      }
      writeln!(out, "{}", json!({"ev": "op", "i": i + 1, "op": op, "arenas": evs})).unwrap();
      if flush {
        out.flush().unwrap();
      }
    }
    for inst in insts.iter_mut().flatten() {
      inst.finish();
    }
  }
  out.flush().unwrap();
}
