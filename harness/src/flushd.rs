//! `rvh flush <drivers.ndjson> <trace.ndjson> <dir>`: the flush family of calls on a file-backed arena.
//! Every line of the trace is written with ONE write(2) (no buffering): the run is observed with
//! `strace -e trace=msync,write`, and the msync calls between the "call" and the "ret" line of a call are that call's.
use crate::common::*;
use crate::seq::{options_of, ArenaX};
use rarena_allocator::{sync, unsync, Buffer};
use serde_json::{json, Value};
use std::io::Write;
use std::panic::{catch_unwind, AssertUnwindSafe};

fn emit(f: &mut std::fs::File, v: Value) {
  let mut s = serde_json::to_string(&v).unwrap();
  s.push('\n');
  f.write_all(s.as_bytes()).expect("write trace");
}

fn big(v: &Value) -> usize {
  match v {
    Value::String(s) => s.parse::<u128>().map(|x| x.min(usize::MAX as u128) as usize).unwrap_or(0),
    other => other.as_u64().unwrap_or(0) as usize,
  }
}

fn drive<A: ArenaX>(d: &Value, out: &mut std::fs::File, workdir: &str) {
  let path = scratch_path(workdir, "flush");
  let cfg = &d["cfg"];
  let arena = unsafe {
    options_of(cfg)
      .with_create_new(true)
      .with_read(true)
      .with_write(true)
      .map_mut::<A, _>(&path)
  };
  let arena = match arena {
    Ok(a) => a,
    Err(e) => {
      emit(out, json!({"ev": "reset", "id": d["id"], "ok": false, "err": format!("{e:?}")}));
      return;
    }
  };
  // something to write back
  if let Ok(mut b) = arena.alloc_bytes(64) {
    unsafe { b.detach() };
    let _ = b.put_u64_le(0x0102030405060708);
  }
  let hsize = 24u64; // sentinel u64 + allocated + min_segment_size + discarded (both flavours), padded to 8
  emit(
    out,
    json!({"ev": "reset", "id": d["id"], "ok": true, "flavor": d["flavor"], "base": format!("{}", arena.raw_ptr() as usize),
           "mlen": arena.capacity(), "hoff": arena.data_offset() as u64 - hsize, "hsize": hsize, "page": arena.page_size(),
           "reserved": arena.reserved_bytes()}),
  );
  for (i, c) in d["calls"].as_array().unwrap().iter().enumerate() {
    let op = c["op"].as_str().unwrap();
    let (off, len) = (big(&c["off"]), big(&c["len"]));
    emit(out, json!({"ev": "c", "i": i}));
    let r = catch_unwind(AssertUnwindSafe(|| match op {
      "flush" => arena.flush(),
      "flush_async" => arena.flush_async(),
      "flush_range" => arena.flush_range(off, len),
      "flush_async_range" => arena.flush_async_range(off, len),
      "flush_header" => arena.flush_header(),
      "flush_async_header" => arena.flush_async_header(),
      "flush_header_and_range" => arena.flush_header_and_range(off, len),
      "flush_async_header_and_range" => arena.flush_async_header_and_range(off, len),
      other => panic!("unknown flush op {other}"),
    }));
    let res = match r {
      Ok(Ok(())) => json!({"k": "ok"}),
      Ok(Err(e)) => json!({"k": "err", "kind": format!("{:?}", e.kind()), "os": e.raw_os_error().unwrap_or(-1)}),
      Err(p) => {
        let msg = p.downcast_ref::<String>().cloned().or_else(|| p.downcast_ref::<&str>().map(|s| s.to_string())).unwrap_or_default();
        json!({"k": "panic", "msg": msg})
      }
    };
    emit(out, json!({"ev": "r", "i": i, "op": op, "off": sat(off as u64), "len": sat(len as u64), "offx": format!("{off}"), "lenx": format!("{len}"), "res": res}));
  }
  drop(arena);
  let _ = std::fs::remove_file(&path);
}

pub fn run(args: &[String]) {
  let input = std::fs::read_to_string(&args[0]).expect("read drivers");
  let mut out = std::fs::File::create(&args[1]).expect("create out");
  let workdir = args.get(2).cloned().unwrap_or_else(|| "/verif/work/files".to_string());
  std::panic::set_hook(Box::new(|_| {}));
  for line in input.lines() {
    if line.trim().is_empty() {
      continue;
    }
    let d: Value = serde_json::from_str(line).expect("driver json");
    match d["flavor"].as_str().unwrap_or("sync") {
      "sync" => drive::<sync::Arena>(&d, &mut out, &workdir),
      _ => drive::<unsync::Arena>(&d, &mut out, &workdir),
    }
  }
}
